#!/bin/sh
# Offline setup: pre-build the dependency crates for each configuration so that the first check
# does not pay for it. Everything is rebuilt from /repo's working tree by each check anyway.
set -e
cd "$(dirname "$0")"
export CARGO_NET_OFFLINE=true
python3 tools/mkmanifest.py >/dev/null 2>&1 || true
./check --prebuild || true
