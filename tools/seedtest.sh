#!/bin/sh
# usage: tools/seedtest.sh <seeded-id> [extra ./check args]
# Applies /verif/seeded/<id>/patch.diff to /repo, runs the check of the property it breaks, restores /repo.
# exit code = exit code of the check (1 expected: the seeded breakage is detected).
set -u
id="$1"; shift
dir=/verif/seeded/$id
prop=$(python3 -c "import json,sys; print(json.load(open('$dir/meta.json'))['property'])")
cd /repo || exit 3
if ! git diff --quiet; then echo "/repo has uncommitted changes, refusing"; exit 3; fi
git apply "$dir/patch.diff" || { echo "patch does not apply"; exit 3; }
cd /verif
./check "$prop" "$@"
rc=$?
git -C /repo checkout -- .
echo "seedtest $id property=$prop rc=$rc"
exit $rc
