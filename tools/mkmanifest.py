#!/usr/bin/env python3
"""Regenerate /verif/MANIFEST.json from the claims table below (kept next to the harness table)."""
import json, os, sys
ROOT = os.path.dirname(os.path.dirname(os.path.abspath(__file__)))
sys.path.insert(0, os.path.join(ROOT, "engines"))
import claims

man = {
    "version": 1,
    "setup_cmd": "./setup.sh",
    "hooks": {
        "guard": "--cfg dashu_verif (plus --cfg dashu_verif_inline for the inline-only regime; both only via RUSTFLAGS)",
        "enable": "RUSTFLAGS='--cfg dashu_verif --cfg force_bits=\"64\"' cargo kani ... (set by /verif/check per configuration; force_bits is the repository's own cfg)",
        "baseline_off_cmd": "cd /repo && cargo test --workspace --no-fail-fast --offline",
        "source_commits": claims.HOOK_COMMITS,
        "add_only": True,
    },
    "engines": claims.ENGINES,
    "checks": [],
    "not_applicable": [],
    "notes": claims.NOTES,
}
for pid, c in sorted(claims.CLAIMS.items()):
    man["checks"].append({
        "property_id": pid,
        "quick_cmd": "./check %s --tier quick" % pid,
        "thorough_cmd": "./check %s --tier thorough" % pid,
        "evidence_file": "/verif/evidence/%s.json" % pid,
        "replay_cmd_template": "./check %s --replay {path}" % pid,
        "engine": c.get("engine", "kreal"),
        "level_claimed": {"category": "other", "text": c["text"], "design_ref": c.get("design_ref", "DESIGN.md section 3, " + pid)},
        "level_note": c["note"],
        "technique": c.get("technique", "bounded model checking of the real Rust code (Kani 0.68 -> CBMC 6.11 -> CaDiCaL SAT), symbolic inputs per harness, native replay of counterexamples"),
    })
for pid, reason in sorted(claims.NOT_APPLICABLE.items()):
    man["not_applicable"].append({"property_id": pid, "reason": reason})
json.dump(man, open(os.path.join(ROOT, "MANIFEST.json"), "w"), indent=1)
print("wrote MANIFEST.json:", len(man["checks"]), "checks,", len(man["not_applicable"]), "not applicable")
