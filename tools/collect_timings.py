#!/usr/bin/env python3
"""merge the per-harness wall times of the evidence files into engines/timings.json (max over runs)"""
import json, glob, os
root = os.path.dirname(os.path.dirname(os.path.abspath(__file__)))
path = os.path.join(root, "engines", "timings.json")
t = json.load(open(path)) if os.path.exists(path) else {}
for f in glob.glob(os.path.join(root, "evidence", "*.json")):
    e = json.load(open(f))
    for h in e["coverage"].get("harnesses", []):
        if h.get("verdict") == "ok" and h.get("time_s"):
            t[h["harness"]] = max(t.get(h["harness"], 0), round(h["time_s"], 1))
json.dump(t, open(path, "w"), indent=0, sort_keys=True)
print(len(t), "timings")
