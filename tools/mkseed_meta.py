#!/usr/bin/env python3
"""write /verif/seeded/<id>/meta.json (id, property, needs, detected_by, commands)"""
import json, sys, os
sid, prop, needs, detected, ran = sys.argv[1:6]
d = os.path.join("/verif/seeded", sid)
json.dump({"id": sid, "property": prop, "needs_to_manifest": needs, "detected_by": detected, "what_was_run": ran,
           "files": {"patch": "patch.diff", "demonstration": "demo.rs", "author_notes": "notes.md"}},
          open(os.path.join(d, "meta.json"), "w"), indent=1)
