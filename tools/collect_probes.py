#!/usr/bin/env python3
"""append the harnesses reported INCONCLUSIVE (undecided: time-out / out of memory) by the given check logs to
engines/probe_list.txt (with the reason); non-reproducing counterexamples are NOT demoted (they need a look)."""
import re, sys, os
out = os.path.join(os.path.dirname(os.path.dirname(os.path.abspath(__file__))), "engines", "probe_list.txt")
have = set()
if os.path.exists(out):
    have = {l.split()[0] for l in open(out) if l.strip() and not l.startswith("#")}
new = []
for f in sys.argv[1:]:
    for l in open(f):
        m = re.match(r"INCONCLUSIVE (\S+) \[(\w+)\]: (undecided|no result)", l)
        if m and m.group(1) not in have:
            have.add(m.group(1))
            new.append("%s  # %s: undecided in the quick tier (300 s / 14 GB) on the unchanged tree\n" % (m.group(1), os.path.basename(f)))
with open(out, "a") as fo:
    if not os.path.getsize(out) if os.path.exists(out) else True:
        fo.write("# harness names demoted to the 'probe' tier (see engines/harnesses.py demote_probes)\n")
    fo.writelines(new)
print("added", len(new))
