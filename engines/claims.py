"""What is claimed per property (feeds MANIFEST.json via tools/mkmanifest.py)."""
HOOK_COMMITS = ["56a64ef"]
ENGINES = [
    {"name": "kreal", "path": "/verif/engines/kreal", "serves_properties": ["C01", "C06"],
     "kind_free_text": "Kani proof harnesses (generated from engines/harnesses.py) over the real dashu crates as path dependencies on /repo; CBMC/CaDiCaL decides; counterexamples replayed natively (dev+release)"},
]
NOTES = ("Every check is bounded model checking of the real code; bounds are stated per harness in the evidence file. "
         "exit 0 = all obligations discharged; exit 1 = solver counterexample reproduced natively; exit 2 = inconclusive (never a pass).")
BMC = "Holds for ALL inputs inside the stated bounds (solver verdict over the compiled code), nothing is claimed outside them. "
CLAIMS = {
    "C01": {
        "text": BMC + "Word-level add/sub kernels fully symbolic on 4 words (64- and 32-bit words); UBig/IBig +,- through the real operator layer for every operand length pair 0..3 words (thorough: 0..4), every sign pair and ownership form, result compared with a ripple-carry oracle and checked canonical.",
        "note": "Trusted: Kani/CBMC/CaDiCaL, the 30-line oracles in engines/kreal/src/oracle.rs. Outside: operands > 4 words (quick: 3) with free contents, the x86_64 carry intrinsics.",
    },
    "C06": {
        "text": BMC + "FloatEncoding::encode/decode for f32 (all i32 mantissas x exponents -400..400) and f64 (all i64 x -1400..1400) against an integer reference model that is itself cross-checked against the compiler's int->float cast; all bit patterns for decode.",
        "note": "Trusted: CBMC's bit-precise semantics of shifts/casts. Outside so far: big-integer / rational / FBig conversions (being added).",
    },
}
_TODO = "not built yet in this round (see DESIGN.md section 3 for the plan); will be claimed when its harnesses exist"
NOT_APPLICABLE = {
    "C11": "accuracy of exp/ln/pow against a transcendental true value cannot be stated as a bit-vector assertion without a second rigorous series evaluation; the series loops run on >100-bit integers with data-dependent trip counts - outside bounded symbolic execution (DESIGN.md section 4)",
    "C20": "quantifies over programs expanded by a proc-macro at compile time; Kani cannot execute proc-macro crates symbolically (DESIGN.md section 4)",
}
for p in ["C02", "C03", "C04", "C05", "C07", "C08", "C09", "C10", "C12", "C13", "C14", "C15", "C16", "C17", "C18", "C19"]:
    NOT_APPLICABLE[p] = _TODO
