"""What is claimed per property (feeds MANIFEST.json via tools/mkmanifest.py)."""
HOOK_COMMITS = ["56a64ef", "eb21cc7", "7f35f13", "aa6222d", "b70ad5b"]
ENGINES = [
    {"name": "kreal", "path": "/verif/engines/kreal",
     "serves_properties": ["C01", "C02", "C05", "C06", "C07", "C09", "C10", "C12", "C13", "C14", "C15", "C16", "C17", "C19"],
     "kind_free_text": "Kani proof harnesses (bodies in engines/kreal/src/h_*.rs, instantiated per shape/sign/form/configuration from engines/harnesses.py into gen.rs on every run) over the real dashu crates as path dependencies on /repo; CBMC 6.11 + CaDiCaL decide; counterexamples are replayed natively (dev and release) through the same harness body before a VIOLATION is printed"},
]
NOTES = ("Every check is bounded model checking of the real code; bounds are stated per harness in the evidence file (coverage.bounds / coverage.harnesses). "
         "exit 0 = all obligations discharged; exit 1 = solver counterexample reproduced natively; exit 2 = inconclusive (time-out, out of memory, vacuous witness, non-reproducing counterexample) - never reported as a pass. "
         "./check --selftest <ID> runs the harness bodies natively on random inputs (development aid, not evidence).")
BMC = "Holds for ALL inputs inside the stated bounds (SAT verdict over the compiled code, unwinding assertions on); nothing is claimed outside them. "
TRUST = "Trusted: Kani 0.68/CBMC 6.11/CaDiCaL, the reference models in engines/kreal/src/oracle.rs and the per-harness oracles; force_bits selects arch/generic_* (the x86_64 carry intrinsics are outside). "
CLAIMS = {
    "C01": {
        "text": BMC + 'add/sub word kernels fully symbolic on 4 words (64- and 32-bit words); UBig/IBig + and - through the real operator layer for every operand length pair 0..3 words (plus the mixed-ownership forms for lengths 3/4), every sign pair and ownership form, mixed UBig/IBig forms, UBig underflow panics in every form; multiplication with ONE operand fully symbolic and the other a sparse literal of a class (3, 5, 2^63+1, 2^32, [3,1], [0,2^32], [1,2^63], [13,1], [7,0,5], [3,0,1], [0,0,128]): word kernels, schoolbook up to 4x3, Karatsuba n=3 (thorough 4), mul_dword_in_place, UBig/IBig/mixed * in every form with 0..3 symbolic words on either side; symbolic x symbolic products for one-word structured operands; x*x / sqr / cubic on one structured word; pow for bases p*2^t (p < 2^4) and exponents 0..5; every result compared with a ripple-carry / schoolbook oracle and checked canonical.',
        "note": TRUST + 'Outside: symbolic x symbolic products beyond one word and dense literal multipliers (measured: the SAT back end does not finish), operands > 4 words, Toom-3 and the production thresholds (24/192 words).',
    },
    "C02": {
        "text": BMC + "Defining identity a = q*b + r with the range/sign of r (never a second divider): single/double-word division kernels with literal divisors over all (2 words) / structured (3-4 words) dividends, power-of-two divisors 2^k and 2^(W+k) with symbolic k over all dividends; UBig / % div_rem div_euclid rem_euclid div_rem_euclid div_rem_assign /= %= is_multiple_of for structured operands of 0..3 (thorough 4) words; IBig truncating forms for every sign pair; IBig Euclidean forms for |a|,|b| < 2^10 in the inline-only regime; division by zero panics in every form; ConstDivisor with literal divisors of one and two words (every class) agrees with plain division; the multi-word division kernel with literal 3-4-word divisors, literal upper dividend words and a symbolic low word returns the (q, r) computed outside.",
        "note": TRUST + "Outside: divide-and-conquer division (> 32 words), unconstrained full-width reciprocal division, symbolic ConstDivisor moduli (CBMC runs out of memory), / % div_rem THROUGH a ConstDivisor of three or more words (the constants are lost behind Kani's union encoding of the enum, DESIGN 0.2 (o): candidates / probes), literals on which CBMC itself crashes (2^64-1).",
    },
    "C05": {
        "text": BMC + "==, cmp, partial_cmp, abs_cmp, abs_eq between arbitrary canonical UBig/IBig of 0..3 (thorough 4) words with every capacity variant (default / tight / max-compact) against the mathematical order; Hash byte streams recorded by a custom Hasher are equal exactly for equal values; canonical-form producers: from_words with leading zeros, clone, clone_from onto every shape and capacity, sign plumbing (from_parts/into_parts/neg/abs/signum), ones(n), from_static_words; every arithmetic harness of C01/C02/C09 additionally asserts the canonical layout of its result.",
        "note": TRUST + "Outside: FBig/RBig comparisons (floats and rationals are not reachable by this engine, see DESIGN 4), values > 4 words.",
    },
    "C06": {
        "text": BMC + "FloatEncoding::encode/decode for f32 (all i32 x exponents -400..400) and f64 (all i64 x -1400..1400) against an integer reference model cross-checked against the compiler's int->float cast; all bit patterns for decode; From/TryFrom between the 12 primitive integer types (+bool) and UBig/IBig for every value / every integer of 0..3 words; to_f32/to_f64 (value, Exact flag, error sign) and TryFrom<UBig/IBig> for f32/f64 for integers of 0..4 (thorough 5) words.",
        "note": TRUST + "TryFrom<f32/f64> for UBig/IBig is decided at 13 LITERAL floats only (regression points for the repaired defect 1.5f32 -> Ok(1)). Outside: TryFrom<f32/f64> for UBig/IBig on symbolic floats (data-dependent shift amounts make CBMC run out of memory), FBig/RBig conversions.",
    },
    "C07": {
        "text": BMC + "from_le_bytes / from_be_bytes, unsigned and two's complement, for EVERY byte string of 11 lengths between 0 and 25 (value and canonical layout against an explicit two's complement oracle); to_le_bytes / to_be_bytes of non-negative integers of 3 words (thorough 4) whose top word is one of 8 literals and whose lower words are symbolic: exact bytes, minimal length, round trip; the byte round trip at 16 LITERAL integers on word/byte boundaries of both signs (regression points for the repaired -2^128 defect); from_str_with_radix_prefix on literal power-of-two-radix texts whose LAST digit is any ASCII byte, and on 20 LITERAL malformed / well-formed texts.",
        "note": TRUST + 'Outside (probed, undecided - DESIGN 0.2 (m)): parsers on symbolic text beyond one trailing symbolic digit, radix 10, Display / in_radix / formatter flags, to_*_bytes of values of at most two words and of negative values (the byte count is data dependent: symbolic-size Vec), chunks.',
    },
    "C09": {
        "text": BMC + "shift kernels fully symbolic (4 words, symbolic amount); UBig & | ^ for lengths 0..3 (thorough 4) in every form; IBig & | ^ ! against an explicit two's complement oracle: non-negative operands to 3 words, negative operands to 2 words (inline-only regime); << and >> by 10 amounts around the word multiples for lengths 0..3, IBig >> as floor division for negative values (<= 2 words quick, 3 words thorough); bit(n) with symbolic n, bit_len, trailing_zeros/ones, count_ones/zeros, is_power_of_two for every sign and length 0..3 (thorough 4); set_bit/clear_bit/split_bits/clear_high_bits at 11 positions; next_power_of_two; UBig::ones(n).",
        "note": TRUST + "Outside: signed bit operations with a negative 3-word operand in the quick tier (thorough: may be undecided), amounts/positions other than the listed ones.",
    },
    "C10": {
        "text": BMC + "The public rounding primitives: Round::round_low_part for the six modes (|integer| < 2^40, every sign of the low part and every relation to 1/2), round_fract::<B> for B in {2,3,10,16,36} and precisions 1..8 (every |fract| < B^p), round_ratio (|num| <= |den| < 2^10), and IBig + Rounding - each against the mathematical definition of the mode.",
        "note": TRUST + "Outside: FBig::trunc/floor/ceil/round/fract/to_int/with_precision and the RBig rounding functions (float and rational operations need an integer model; base-10 digit splitting divides by a symbolic power, which was probed and does not finish - DESIGN 4).",
    },
    "C12": {
        "text": BMC + 'dashu-base gcd/gcd_ext for every pair of u8 (thorough u16): common divisor and Bezout identity; sqrt_rem/cbrt_rem for every u8/u16 (thorough u32); the no_std table-driven log2_bounds for every u8 and for windows of u16 and of the u32 prefix reduction against exact floor/ceil(2^40 log2 n) tables (quick: 5+3 windows of 1024/512 prefixes, thorough: all 64+64), next_up/next_down for every finite f32; UBig/IBig nth_root(n) of 0 for every n, IBig::cbrt on literals of both signs, ilog with power-of-two bases for 1..3 words, remove(2^k) on small values, the gcd_ext_word kernel on the 3-word values [s, 5, 9] (s < 2^8) against literal words with the Bezout identity and signs, and every documented panic (gcd(0,0), zeroth / even-negative roots, ilog domain).',
        "note": TRUST + 'Outside (probed, undecided): Lehmer gcd and gcd_ext on multi-word operands, integer square roots beyond u16/u32 primitives, Newton nth_root with symbolic radicands, ilog with other bases, the std (libm) log2 estimator, FBig/RBig log2_bounds.',
    },
    "C13": {
        "text": BMC + 'Rings with literal moduli (single word with and without normalisation shift, double word): + - neg dbl (and * sqr pow where the calibration showed them decidable) on elements +-p (p < 2^12 or 2^6): the residue equals the integer result reduced mod m; the multi-word ring kernels (add, sub, neg, dbl, swapped sub) for EVERY pair of residues below three literal 3-word moduli (with and without normalisation shift), through a cfg(dashu_verif) entry to the kernels; inv_large at 12 LITERAL points of two 3-word rings (one- and two-word residues with and without a common factor with the modulus); reduce() of every |a| < 2^32 for small moduli; mixing two ConstDivisor instances panics.',
        "note": TRUST + 'Outside (probed, undecided): operators in 3-word rings through ConstDivisor, inv() of residues of three or more words (Lehmer gcd), multiplication in double-word rings, symbolic moduli, multi-word exponents.',
    },
    "C14": {
        "text": BMC + "NumOrd in both directions between UBig/IBig of 0..3 words (32-bit words: 0..5) and every value of the 12 primitive integer types, and between UBig and IBig; NumHash byte streams of UBig/IBig and of the primitive u64/i64 (thorough u128/i128) of the same value are identical; AbsOrd/AbsEq mixed forms (with C05).",
        "note": TRUST + "NumOrd against f32/f64 in both directions for EVERY one-word integer of either sign (IBig and UBig) against each of 36 LITERAL floats (fractions, halves, 2^24, 2^63, 2^64, tiny values, +-0, +-infinity, NaN), the expected order computed exactly in i128; plus a 7 x 9 grid of literal pairs. Outside: comparison with symbolic f32/f64 (data-dependent shift), multi-word integers against floats, FBig/RBig pairs.",
    },
    "C15": {
        "text": BMC + "Differential and oracle-based agreement of call forms: the five ownership/assignment forms of + - * & | ^ and the forms of / % div_rem (C01/C02/C09 harnesses each instantiate every form against the same oracle), mixed UBig/IBig forms, primitive-operand forms, clone and clone_from onto every previous shape (equal and independent), x op= &x.clone() sequences, Reduced forms, and FBig << / <<= / >> / >>= on symbolic (significand, exponent, amount).",
        "note": TRUST + "Outside: FBig operator vs Context method agreement and rational operator forms (need the integer model, DESIGN 4).",
    },
    "C16": {
        "text": BMC + "Every harness of every property runs with Kani's panic, overflow, bounds, unwrap and unwinding assertions on, so absence of undocumented panics and termination within the derived loop bound is decided for each operation harnessed; documented panics are checked as 'always panics' (should_panic harness whose return point is unreachable): UBig underflow in every form, division by zero in every form, gcd(0,0), zeroth/even-negative roots, ilog domain, mixing rings, exhausting the bump allocator; IBig op primitive forms (+ - * / %) for six primitive types.",
        "note": TRUST + 'Known finding (printed, not an alarm): negative IBig % unsigned primitive panics. Outside: parsers (probed, undecided), float operations (ln of a negative number etc.), operations not harnessed anywhere.',
    },
    "C17": {
        "text": BMC + "Inductive step over the representation invariant: pre-state = any Repr of 0..4 words satisfying the invariant with default / tight / over-compact capacity; step = one Buffer operation (14 kinds) followed by from_buffer, clone, clone_from between every shape and capacity pair, every arithmetic/bit operator harness of C01/C02/C09, byte import/export, static words; post = invariant (inline iff <= 2 words, no leading zero, capacity within the compactness bound, zero positive) and all of CBMC's pointer checks (in-bounds, live object, no double free); the bump allocator's slices are disjoint and in bounds.",
        "note": TRUST + "Outside: leaks (not a CBMC property), allocator failure, aliasing-model UB, sizes > 4-5 words.",
    },
    "C19": {
        "text": BMC + "The kernel and operator suites of C01/C02/C07/C09/C05/C06/C14 are decided a second time with force_bits=\"32\" against oracles stated on values (so 64- and 32-bit builds agree on the common domain); the no_std table-driven log2 estimator is decided for every u8/u16 (C12); Kani builds keep debug assertions on.",
        "note": TRUST + "Outside: the std (libm) log2 path, release builds without debug assertions (only the native replay runs --release), serde (feature not in the pinned build; generic visitor machinery is out of reach).",
    },
}
NOT_APPLICABLE = {
    "C03": "float add/sub/mul/div/sqrt run chains of 10-30 big-integer operations with data-dependent shift amounts and digit counts; on the real integer layer CBMC does not finish (symbolic-size buffers), and the planned integer-model engine was probed and does not finish either for base 10 (division by a symbolic power of the base). Only the rounding decision primitives are decided (claimed under C10). A defect of Context::add/sub in base 2 (a far smaller operand treated as a tie; 240 + 1 at precision 5 under HalfAway gave 248) was seen natively while the harness bodies were exercised on random inputs and repaired (fea95aa); no registered check covers it. See DESIGN.md sections 0.2 (k) and 0.3.",
    "C04": "rational arithmetic needs gcd/division loops on symbolic integers through the real integer layer (out of memory in CBMC) - not reachable; see DESIGN.md section 4",
    "C08": "float parsing/printing/base conversion run on the float layer that is not reachable (see C03) - DESIGN.md section 4",
    "C11": "accuracy of exp/ln/pow against a transcendental true value cannot be stated as a bit-vector assertion without a second rigorous series evaluation; the series loops run on >100-bit integers with data-dependent trip counts - outside bounded symbolic execution (DESIGN.md section 4)",
    "C18": "continued-fraction loops over rationals are built on the rational layer that is not reachable (see C04) - DESIGN.md section 4",
    "C20": "quantifies over programs expanded by a proc-macro at compile time; Kani cannot execute proc-macro crates symbolically (DESIGN.md section 4)",
}
