//! C03 (probe, base 2 only): Context::add / sub / mul on the REAL integer layer with a CONCRETE exponent gap,
//! symbolic small significands, inline-only regime. Shift amounts that feed allocations are concrete; the
//! data-dependent ones are right shifts (no allocation).
use crate::nd;
use crate::shapes::*;
use dashu_base::Approximation;
use dashu_float::round::{mode, Round, Rounding};
use dashu_float::{Context, FBig, Repr};
use dashu_int::{IBig, Sign, Word};

fn small_i(i: i64) -> IBig {
    if i == 0 {
        ibig(POS, &[])
    } else {
        ibig(if i < 0 { NEG } else { POS }, &[i.unsigned_abs() as Word])
    }
}

fn bitlen(v: i128) -> u32 {
    128 - v.unsigned_abs().leading_zeros()
}

/// (significand, exponent) of a small float
fn parts<R: Round>(x: &FBig<R, 2>) -> (i64, i64) {
    let r = x.repr();
    let (s, w) = r.significand().as_sign_words();
    assert!(w.len() <= 1);
    let m = if w.is_empty() { 0 } else { w[0] as i64 };
    (if s == NEG { -m } else { m }, r.exponent() as i64)
}

/// check the rounding contract of a base-2 result (sig, exp) with flag `f` against the exact value
/// x = num * 2^e0 (num: i128), at precision p, for mode m (0 Zero 1 Away 2 Up 3 Down 4 HalfEven 5 HalfAway)
fn contract(m: u8, sig: i64, exp: i64, f: Option<Rounding>, num: i128, e0: i64, p: u32) {
    // bring both to a common scale 2^lo
    let lo = if exp < e0 { exp } else { e0 };
    let r = (sig as i128) << ((exp - lo) as u32);
    let x = num << ((e0 - lo) as u32);
    if bitlen(num) <= p {
        // representable: the result is exact and says so
        assert!(r == x, "representable value not returned exactly");
        assert!(f.is_none(), "exact result flagged inexact");
        return;
    }
    assert!(bitlen(sig as i128) <= p + 1, "more than p+1 digits");
    match f {
        None => assert!(r == x, "flagged Exact but differs from the true value"),
        Some(fl) => {
            assert!(r != x, "flagged Inexact but equals the true value");
            // ulp at precision p for the true value: 2^(bitlen(x) - p) in the common scale
            let ulp = 1i128 << (bitlen(x) - p);
            let err = r - x;
            assert!(err.abs() < ulp, "error of at least one ulp");
            match m {
                0 => assert!((err < 0) == (x > 0), "Zero mode rounded away from zero"),
                1 => assert!((err > 0) == (x > 0), "Away mode rounded toward zero"),
                2 => assert!(err > 0, "Up mode rounded down"),
                3 => assert!(err < 0, "Down mode rounded up"),
                _ => assert!(2 * err.abs() <= ulp, "more than half an ulp in a nearest mode"),
            }
            match fl {
                Rounding::AddOne => assert!(err > 0, "AddOne but result below the true value"),
                Rounding::SubOne => assert!(err < 0, "SubOne but result above the true value"),
                Rounding::NoOp => {} // the property constrains only AddOne / SubOne
            }
        }
    }
}

fn addsub<R: Round>(m: u8, gap: u32, p: u32, bits: u32, sub: bool) {
    let a: i64 = nd::any();
    let b: i64 = nd::any();
    nd::assume(a.abs() < (1 << bits) && b.abs() < (1 << bits));
    let ctx = Context::<R>::new(p as usize);
    let ra = Repr::<2>::new(small_i(a), gap as isize);
    let rb = Repr::<2>::new(small_i(b), 0);
    let res = if sub { ctx.sub(&ra, &rb) } else { ctx.add(&ra, &rb) };
    let num = ((a as i128) << gap) + if sub { -(b as i128) } else { b as i128 };
    match res {
        Approximation::Exact(v) => {
            let (s, e) = parts(&v);
            contract(m, s, e, None, num, 0, p);
            core::mem::forget(v);
        }
        Approximation::Inexact(v, fl) => {
            let (s, e) = parts(&v);
            contract(m, s, e, Some(fl), num, 0, p);
            core::mem::forget(v);
        }
    }
}

/// Context::<mode>::new(p).add/sub(a * 2^gap, b), |a|,|b| < 2^bits, base 2
pub fn ctx_addsub(m: u8, gap: u32, p: u32, bits: u32, sub: bool) {
    match m {
        0 => addsub::<mode::Zero>(0, gap, p, bits, sub),
        1 => addsub::<mode::Away>(1, gap, p, bits, sub),
        2 => addsub::<mode::Up>(2, gap, p, bits, sub),
        3 => addsub::<mode::Down>(3, gap, p, bits, sub),
        4 => addsub::<mode::HalfEven>(4, gap, p, bits, sub),
        _ => addsub::<mode::HalfAway>(5, gap, p, bits, sub),
    }
}

fn mul_<R: Round>(m: u8, p: u32, bits: u32) {
    let a: i64 = nd::any();
    let b: i64 = nd::any();
    nd::assume(a.abs() < (1 << bits) && b.abs() < (1 << bits));
    let ctx = Context::<R>::new(p as usize);
    let ra = Repr::<2>::new(small_i(a), 0);
    let rb = Repr::<2>::new(small_i(b), 0);
    let num = (a as i128) * (b as i128);
    match ctx.mul(&ra, &rb) {
        Approximation::Exact(v) => {
            let (s, e) = parts(&v);
            contract(m, s, e, None, num, 0, p);
            core::mem::forget(v);
        }
        Approximation::Inexact(v, fl) => {
            let (s, e) = parts(&v);
            contract(m, s, e, Some(fl), num, 0, p);
            core::mem::forget(v);
        }
    }
}

pub fn ctx_mul(m: u8, p: u32, bits: u32) {
    match m {
        0 => mul_::<mode::Zero>(0, p, bits),
        1 => mul_::<mode::Away>(1, p, bits),
        2 => mul_::<mode::Up>(2, p, bits),
        3 => mul_::<mode::Down>(3, p, bits),
        4 => mul_::<mode::HalfEven>(4, p, bits),
        _ => mul_::<mode::HalfAway>(5, p, bits),
    }
}

/// Context::add on LITERAL base-2 operands around the "small operand far below the rounding position" branch
/// (no symbolic input; the symbolic versions are probes): the result is within half an ulp for the nearest modes
pub fn ctx_add_literals() {
    let cases: [(i64, i64); 8] = [(-240, -1), (240, 1), (-224, -1), (-240, 1), (240, -1), (-128, -1), (31 << 6, 1), (-(31 << 6), -1)];
    let mut i = 0;
    while i < cases.len() {
        let (a, b) = cases[i];
        let num = a as i128 + b as i128;
        let ra = Repr::<2>::new(small_i(a), 0);
        let rb = Repr::<2>::new(small_i(b), 0);
        match Context::<mode::HalfAway>::new(5).add(&ra, &rb) {
            Approximation::Exact(v) => {
                let (s, e) = parts(&v);
                contract(5, s, e, None, num, 0, 5);
            }
            Approximation::Inexact(v, fl) => {
                let (s, e) = parts(&v);
                contract(5, s, e, Some(fl), num, 0, 5);
            }
        }
        match Context::<mode::HalfEven>::new(5).add(&ra, &rb) {
            Approximation::Exact(v) => {
                let (s, e) = parts(&v);
                contract(4, s, e, None, num, 0, 5);
            }
            Approximation::Inexact(v, fl) => {
                let (s, e) = parts(&v);
                contract(4, s, e, Some(fl), num, 0, 5);
            }
        }
        i += 1;
    }
}
