//! Nondeterminism shim. Under Kani every value is `kani::any()`; in a native build the values are
//! popped from a replay queue filled from a solver counterexample (see bin/replay.rs), so that the
//! very same harness body can be executed concretely against the real crate.
#[cfg(not(kani))]
pub mod queue {
    use std::cell::RefCell;
    use std::collections::VecDeque;
    thread_local! {
        pub static Q: RefCell<VecDeque<Vec<u8>>> = RefCell::new(VecDeque::new());
        pub static REJECTED: RefCell<bool> = RefCell::new(false);
        pub static EXHAUSTED: RefCell<bool> = RefCell::new(false);
    }
    pub fn load(vals: Vec<Vec<u8>>) {
        Q.with(|q| *q.borrow_mut() = vals.into());
        REJECTED.with(|r| *r.borrow_mut() = false);
        EXHAUSTED.with(|r| *r.borrow_mut() = false);
    }
    pub fn next<const N: usize>() -> [u8; N] {
        let v = Q.with(|q| q.borrow_mut().pop_front());
        let mut out = [0u8; N];
        match v {
            Some(v) => {
                let n = if v.len() < N { v.len() } else { N };
                out[..n].copy_from_slice(&v[..n]);
            }
            None => EXHAUSTED.with(|r| *r.borrow_mut() = true),
        }
        out
    }
    pub fn rejected() -> bool {
        REJECTED.with(|r| *r.borrow())
    }
    pub fn exhausted() -> bool {
        EXHAUSTED.with(|r| *r.borrow())
    }
}

pub trait Nd: Sized {
    fn nd() -> Self;
}

macro_rules! impl_nd_int {
    ($($t:ty, $n:expr);*) => {$(
        impl Nd for $t {
            #[inline]
            fn nd() -> Self {
                #[cfg(kani)]
                { kani::any::<$t>() }
                #[cfg(not(kani))]
                { <$t>::from_le_bytes(queue::next::<$n>()) }
            }
        }
    )*};
}
impl_nd_int!(u8,1; u16,2; u32,4; u64,8; u128,16; i8,1; i16,2; i32,4; i64,8; i128,16);
impl Nd for usize {
    fn nd() -> Self {
        u64::nd() as usize
    }
}
impl Nd for isize {
    fn nd() -> Self {
        i64::nd() as isize
    }
}
impl Nd for bool {
    fn nd() -> Self {
        u8::nd() & 1 == 1
    }
}
impl<T: Nd + Copy + Default, const N: usize> Nd for [T; N] {
    fn nd() -> Self {
        let mut a = [T::default(); N];
        let mut i = 0;
        while i < N {
            a[i] = T::nd();
            i += 1;
        }
        a
    }
}
impl Nd for dashu_int::Sign {
    fn nd() -> Self {
        if bool::nd() {
            dashu_int::Sign::Negative
        } else {
            dashu_int::Sign::Positive
        }
    }
}

#[inline]
pub fn any<T: Nd>() -> T {
    T::nd()
}

/// `kani::assume`; natively a violated assumption aborts the replay as "rejected".
#[inline]
pub fn assume(c: bool) {
    #[cfg(kani)]
    kani::assume(c);
    #[cfg(not(kani))]
    if !c {
        queue::REJECTED.with(|r| *r.borrow_mut() = true);
        std::panic::panic_any(Rejected);
    }
}
#[cfg(not(kani))]
pub struct Rejected;

/// cover!(cond, "msg"): a reachability witness under Kani, nothing natively
#[macro_export]
macro_rules! cover {
    ($c:expr, $m:literal) => {{
        #[cfg(kani)]
        kani::cover!($c, $m);
        #[cfg(not(kani))]
        let _ = $c;
    }};
}
