//! Shape-concrete construction of big integers and canonical-form observers.
use crate::nd;
use dashu_int::verif;
use dashu_int::{IBig, Sign, UBig, Word};

pub const W: usize = Word::BITS as usize;
pub const POS: Sign = Sign::Positive;
pub const NEG: Sign = Sign::Negative;
pub const SIGNS: [Sign; 2] = [Sign::Positive, Sign::Negative];

/// Symbolic word array of exactly N significant words (top word non-zero).
pub fn any_mag<const N: usize>() -> [Word; N] {
    let a: [Word; N] = nd::any();
    if N > 0 {
        nd::assume(a[N - 1] != 0);
    }
    a
}

/// Symbolic word array of N words whose significant length may be anything in 0..=N
pub fn any_words<const N: usize>() -> [Word; N] {
    nd::any()
}

/// UBig holding exactly `words` (top word must be non-zero), default capacity
pub fn ubig(words: &[Word]) -> UBig {
    verif::ubig_from_shape(words, 0)
}

/// IBig holding exactly `words` with `sign` (no negative zero!)
pub fn ibig(sign: Sign, words: &[Word]) -> IBig {
    let sign = if words.is_empty() { Sign::Positive } else { sign };
    verif::ibig_from_shape(sign, words, 0)
}

pub fn max_compact_capacity(len: usize) -> usize {
    len + len / 4 + 4
}

/// The representation invariant of `Repr` (C05/C17), stated on the raw layout.
pub fn inv(cap: isize, len: usize, inline: bool, top_nonzero: bool) -> bool {
    let abs = cap.unsigned_abs();
    if inline {
        (abs == 1 || abs == 2) && ((abs == 2) == (len == 2)) && (len != 0 || cap > 0)
    } else {
        len >= 3 && top_nonzero && abs >= len && abs <= max_compact_capacity(len)
    }
}

pub fn canonical_u(x: &UBig) -> bool {
    let (cap, len, inline) = verif::ubig_shape(x);
    if cap < 0 {
        return false;
    }
    let top = if inline { true } else { x.as_words()[len - 1] != 0 };
    inv(cap, len, inline, top)
}

pub fn canonical_i(x: &IBig) -> bool {
    let (cap, len, inline) = verif::ibig_shape(x);
    let top = if inline { true } else { x.as_sign_words().1[len - 1] != 0 };
    inv(cap, len, inline, top)
}

/// number of significant words in an array
pub fn sig_len(m: &[Word]) -> usize {
    let mut n = m.len();
    while n > 0 && m[n - 1] == 0 {
        n -= 1;
    }
    n
}

/// value equality of a word slice (as returned by as_words) with an oracle magnitude
/// that may carry leading zero words. Word by word (no memcmp).
pub fn words_eq(x: &[Word], m: &[Word]) -> bool {
    let n = sig_len(m);
    if x.len() != n {
        return false;
    }
    let mut i = 0;
    while i < n {
        if x[i] != m[i] {
            return false;
        }
        i += 1;
    }
    true
}

/// x is canonical and equals the magnitude m
pub fn check_u(x: &UBig, m: &[Word]) -> bool {
    canonical_u(x) && words_eq(x.as_words(), m)
}

/// x is canonical and equals sign * m (sign ignored when m == 0)
pub fn check_i(x: &IBig, sign: Sign, m: &[Word]) -> bool {
    if !canonical_i(x) {
        return false;
    }
    let (s, w) = x.as_sign_words();
    if !words_eq(w, m) {
        return false;
    }
    sig_len(m) == 0 || s == sign
}

/// Structured word: a symbolic selector places a symbolic K-bit payload p as one of
/// p, MAX - p, p << (W - K), 2^(W-1) + p  (all-ones / sparse / top-bit patterns, see DESIGN 1(c))
pub fn sword(k: u32) -> Word {
    let sel: u8 = nd::any();
    let p: Word = nd::any();
    let p = p & (((1 as Word) << k) - 1);
    match sel & 3 {
        0 => p,
        1 => Word::MAX - p,
        2 => p << (Word::BITS - k),
        _ => ((1 as Word) << (Word::BITS - 1)) + p,
    }
}

/// N structured words, top word non-zero
pub fn smag<const N: usize>(k: u32) -> [Word; N] {
    let mut a = [0 as Word; N];
    let mut i = 0;
    while i < N {
        a[i] = sword(k);
        i += 1;
    }
    if N > 0 {
        nd::assume(a[N - 1] != 0);
    }
    a
}
