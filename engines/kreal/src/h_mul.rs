//! C01: multiplication, squaring, powers.
use crate::nd;
use crate::oracle;
use crate::shapes::*;
use dashu_int::verif::{self, math as km, mul as kmul, MemoryAllocation};
use dashu_int::{DoubleWord, IBig, Sign, UBig, Word};

type DW = DoubleWord;
const WB: u32 = Word::BITS;

fn eq_arr(x: &[Word], y: &[Word]) -> bool {
    let mut i = 0;
    while i < x.len() {
        if x[i] != y[i] {
            return false;
        }
        i += 1;
    }
    true
}

// ------------------------------------------------------------------ word kernels, full width
// (the oracle writes each elementary product exactly like the kernel: extend(lhs) * extend(rhs))

/// math::mul_add_carry / mul_add_2carry: defining identity in double words (cannot overflow)
pub fn k_mul_add_carry() {
    let (a, b, c, d): (Word, Word, Word, Word) = (nd::any(), nd::any(), nd::any(), nd::any());
    let (lo, hi) = km::mul_add_carry(a, b, c);
    let v = (a as DW) * (b as DW) + (c as DW);
    assert!(lo == v as Word && hi == (v >> WB) as Word);
    let (lo, hi) = km::mul_add_2carry(a, b, c, d);
    let v = (a as DW) * (b as DW) + (c as DW) + (d as DW);
    assert!(lo == v as Word && hi == (v >> WB) as Word);
}

/// mul_word_in_place_with_carry on N words: words*rhs + carry
pub fn k_mul_word<const N: usize>(lit: Word) {
    let mut a: Box<[Word; N]> = Box::new(nd::any());
    let a0: [Word; N] = *a;
    // lit != 0: the multiplier is this literal (symbolic x constant products are easy for the solver,
    // symbolic x symbolic 64-bit products are not: DESIGN 0.2 (l))
    let rhs: Word = if lit != 0 { lit } else { nd::any() };
    let cin: Word = nd::any();
    let cout = kmul::mul_word_in_place_with_carry(&mut a[..], rhs, cin);
    let mut carry = if rhs == 0 { 0 } else { cin };
    let mut i = 0;
    while i < N {
        let v = (a0[i] as DW) * (rhs as DW) + (carry as DW);
        if rhs != 0 {
            assert!(a[i] == v as Word);
        } else {
            assert!(a[i] == a0[i]); // documented shortcut: untouched, caller handles rhs == 0
        }
        carry = (v >> WB) as Word;
        i += 1;
    }
    assert!(cout == if rhs == 0 { 0 } else { carry });
}

/// add_mul_word_same_len_in_place: words += mult * rhs, returns carry
pub fn k_add_mul_word<const N: usize>(lit: Word) {
    let mut a: Box<[Word; N]> = Box::new(nd::any());
    let a0: [Word; N] = *a;
    let b: [Word; N] = nd::any();
    let mult: Word = if lit != 0 { lit } else { nd::any() };
    let cout = kmul::add_mul_word_same_len_in_place(&mut a[..], mult, &b);
    let mut carry: Word = 0;
    let mut i = 0;
    while i < N {
        let v = (mult as DW) * (b[i] as DW) + (a0[i] as DW) + (carry as DW);
        assert!(a[i] == v as Word);
        carry = (v >> WB) as Word;
        i += 1;
    }
    assert!(cout == carry);
}

/// sub_mul_word_same_len_in_place: words -= mult * rhs, returns borrow word:
/// checked by the identity  result + mult*rhs == words + borrow * B^N  (products as in the kernel)
pub fn k_sub_mul_word<const N: usize>(lit: Word) {
    let mut a: Box<[Word; N]> = Box::new(nd::any());
    let a0: [Word; N] = *a;
    let b: [Word; N] = nd::any();
    let mult: Word = if lit != 0 { lit } else { nd::any() };
    let borrow = kmul::sub_mul_word_same_len_in_place(&mut a[..], mult, &b);
    // recompute result + mult*b limb by limb
    let mut carry: Word = 0;
    let mut i = 0;
    while i < N {
        let v = (mult as DW) * (b[i] as DW) + (a[i] as DW) + (carry as DW);
        assert!(v as Word == a0[i]);
        carry = (v >> WB) as Word;
        i += 1;
    }
    assert!(carry == borrow);
}

/// schoolbook add_signed_mul through the size dispatch (or directly): c += sign * a * b.
/// `full`: words fully symbolic, otherwise structured with k-bit payloads.
pub fn k_simple<const NA: usize, const NB: usize, const NC: usize>(sign: Sign, full: bool, k: u32, blit: Option<[Word; NB]>) {
    let a: [Word; NA] = if full { nd::any() } else { smag::<NA>(k) };
    let b: [Word; NB] = match blit {
        Some(b) => b,
        None => {
            if full {
                nd::any()
            } else {
                smag::<NB>(k)
            }
        }
    };
    let c0: [Word; NC] = if full { nd::any() } else { smag::<NC>(k) };
    let mut c: Box<[Word; NC]> = Box::new(c0);
    let mut alloc = MemoryAllocation::new(kmul::memory_requirement_exact(NC, NB));
    let carry = kmul::add_signed_mul(&mut c[..], sign, &a, &b, &mut alloc.memory());
    let mut p = [0 as Word; NC];
    oracle::mul(&a, &b, &mut p);
    let mut want = [0 as Word; NC];
    let (flag, expect) = match sign {
        Sign::Positive => (oracle::add(&c0, &p, &mut want), 1),
        Sign::Negative => (oracle::sub(&c0, &p, &mut want), -1),
    };
    assert!(eq_arr(&c[..], &want));
    assert!(carry == if flag { expect } else { 0 });
}

/// Karatsuba kernel called directly (bypassing the threshold) vs the schoolbook oracle
pub fn k_karatsuba<const N: usize, const NC: usize>(sign: Sign, k: u32, blit: Option<[Word; N]>) {
    // with a literal b: a and the accumulator are fully symbolic
    let a: [Word; N] = if blit.is_some() { nd::any() } else { smag::<N>(k) };
    let b: [Word; N] = match blit {
        Some(b) => b,
        None => smag::<N>(k),
    };
    let c0: [Word; NC] = if blit.is_some() { nd::any() } else { smag::<NC>(k) };
    let mut c: Box<[Word; NC]> = Box::new(c0);
    let mut alloc = MemoryAllocation::new(kmul::verif_algos::karatsuba_layout(N));
    let carry = kmul::verif_algos::karatsuba_same_len(&mut c[..], sign, &a, &b, &mut alloc.memory());
    let mut p = [0 as Word; NC];
    oracle::mul(&a, &b, &mut p);
    let mut want = [0 as Word; NC];
    let (flag, expect) = match sign {
        Sign::Positive => (oracle::add(&c0, &p, &mut want), 1),
        Sign::Negative => (oracle::sub(&c0, &p, &mut want), -1),
    };
    assert!(eq_arr(&c[..], &want));
    assert!(carry == if flag { expect } else { 0 });
}

/// sqr::sqr(b, a) == multiply(a, a)  (differential, real code on both sides, products shared)
pub fn k_sqr<const N: usize, const NC: usize>(full: bool, k: u32) {
    let a: [Word; N] = if full { nd::any() } else { smag::<N>(k) };
    let mut b: Box<[Word; NC]> = Box::new([0; NC]);
    let mut alloc = MemoryAllocation::new(verif::sqr::memory_requirement_exact(N));
    verif::sqr::sqr(&mut b[..], &a, &mut alloc.memory());
    let mut p = [0 as Word; NC];
    oracle::mul(&a, &a, &mut p);
    assert!(eq_arr(&b[..], &p));
}

/// mul_dword_in_place (structured): words * rhs, rhs a genuine double word
pub fn k_mul_dword<const N: usize, const NC: usize>(k: u32, rlit: Option<[Word; 2]>) {
    let a0: [Word; N] = if rlit.is_some() { nd::any() } else { smag::<N>(k) };
    let mut a: Box<[Word; N]> = Box::new(a0);
    let r: [Word; 2] = match rlit {
        Some(r) => r,
        None => smag::<2>(k),
    };
    let rhs = verif::primitive::double_word(r[0], r[1]);
    let carry = kmul::mul_dword_in_place(&mut a[..], rhs);
    let mut p = [0 as Word; NC]; // NC = N + 2
    oracle::mul(&a0, &r, &mut p);
    assert!(eq_arr(&a[..], &p[..N]));
    let (clo, chi) = verif::primitive::split_dword(carry);
    assert!(clo == p[N] && chi == p[N + 1]);
}

// ------------------------------------------------------------------ operators from shapes

/// UBig * UBig, structured contents (k-bit payloads) or full width; M = NA + NB
pub fn mul_u<const NA: usize, const NB: usize, const M: usize>(form: u8, full: bool, k: u32, blit: Option<[Word; NB]>, swap: bool) {
    // blit: the second operand is a literal and the first one fully symbolic; swap: literal on the left
    let a: [Word; NA] = if full || blit.is_some() { any_mag::<NA>() } else { smag::<NA>(k) };
    let b: [Word; NB] = match blit {
        Some(b) => b,
        None => {
            if full {
                any_mag::<NB>()
            } else {
                smag::<NB>(k)
            }
        }
    };
    let mut m = [0 as Word; M];
    if NA >= NB {
        oracle::mul(&a, &b, &mut m);
    } else {
        oracle::mul(&b, &a, &mut m);
    }
    let (x, y) = if swap { (ubig(&b), ubig(&a)) } else { (ubig(&a), ubig(&b)) };
    let r = match form {
        0 => x * y,
        1 => &x * &y,
        2 => x * &y,
        3 => &x * y,
        _ => {
            let mut x = x;
            x *= y;
            x
        }
    };
    assert!(check_u(&r, &m));
}

/// x * x through the operator (the "equal operands -> square" shortcut), x.sqr(), x.cubic()
pub fn sqr_u<const N: usize, const M: usize, const M3: usize>(which: u8, k: u32) {
    let a: [Word; N] = smag::<N>(k);
    let mut m = [0 as Word; M]; // M = 2N
    oracle::mul(&a, &a, &mut m);
    let x = ubig(&a);
    match which {
        0 => {
            let r = &x * &x;
            assert!(check_u(&r, &m));
        }
        1 => {
            let r = x.sqr();
            assert!(check_u(&r, &m));
        }
        2 => {
            let y = ubig(&a);
            let r = x * y;
            assert!(check_u(&r, &m));
        }
        _ => {
            let r = x.cubic();
            let mut m3 = [0 as Word; M3]; // M3 = 3N
            oracle::mul(&m, &a, &mut m3);
            assert!(check_u(&r, &m3));
        }
    }
}

/// IBig * IBig: sign rule and zero, structured magnitudes
pub fn mul_i<const NA: usize, const NB: usize, const M: usize>(sa: Sign, sb: Sign, form: u8, k: u32, blit: Option<[Word; NB]>) {
    let a: [Word; NA] = if blit.is_some() { any_mag::<NA>() } else { smag::<NA>(k) };
    let b: [Word; NB] = match blit {
        Some(b) => b,
        None => smag::<NB>(k),
    };
    let sa = if NA == 0 { POS } else { sa };
    let sb = if NB == 0 { POS } else { sb };
    let mut m = [0 as Word; M];
    if NA >= NB {
        oracle::mul(&a, &b, &mut m);
    } else {
        oracle::mul(&b, &a, &mut m);
    }
    let s = if sa == sb { POS } else { NEG };
    let (x, y) = (ibig(sa, &a), ibig(sb, &b));
    let r = match form {
        0 => x * y,
        1 => &x * &y,
        2 => x * &y,
        3 => &x * y,
        _ => {
            let mut x = x;
            x *= y;
            x
        }
    };
    assert!(check_i(&r, s, &m));
}

/// mixed UBig * IBig forms
pub fn mul_mixed<const NA: usize, const NB: usize, const M: usize>(sb: Sign, which: u8, k: u32, blit: Option<[Word; NB]>) {
    let a: [Word; NA] = if blit.is_some() { any_mag::<NA>() } else { smag::<NA>(k) };
    let b: [Word; NB] = match blit {
        Some(b) => b,
        None => smag::<NB>(k),
    };
    let sb = if NB == 0 { POS } else { sb };
    let mut m = [0 as Word; M];
    if NA >= NB {
        oracle::mul(&a, &b, &mut m);
    } else {
        oracle::mul(&b, &a, &mut m);
    }
    let r = match which {
        0 => ubig(&a) * ibig(sb, &b),
        1 => ibig(sb, &b) * ubig(&a),
        2 => &ubig(&a) * &ibig(sb, &b),
        _ => {
            let mut x = ibig(sb, &b);
            x *= ubig(&a);
            x
        }
    };
    assert!(check_i(&r, sb, &m));
}

/// pow: base one word (payload bits symbolic), exponent concrete; oracle = repeated schoolbook
pub fn pow_u<const M: usize>(exp: usize, k: u32, neg: bool) {
    let p: Word = nd::any();
    let sel: u8 = nd::any();
    let p = p & (((1 as Word) << k) - 1);
    // base = p, p * 2^t (power-of-two factors are removed by pow_word_base), or 2^t
    let t = (sel & 7) as u32;
    let base = match sel >> 6 {
        0 => p,
        1 => p << t,
        _ => (1 as Word) << t,
    };
    let mut acc = [0 as Word; M];
    acc[0] = 1;
    let mut e = 0;
    while e < exp {
        let mut nxt = [0 as Word; M];
        // acc * base, M words are enough by construction (k*exp + 7*exp < M*W)
        let mut carry: Word = 0;
        let mut i = 0;
        while i < M {
            let v = (acc[i] as DW) * (base as DW) + (carry as DW);
            nxt[i] = v as Word;
            carry = (v >> WB) as Word;
            i += 1;
        }
        assert!(carry == 0);
        acc = nxt;
        e += 1;
    }
    if neg {
        let x = if base == 0 { ibig(POS, &[]) } else { ibig(NEG, &[base]) };
        let r = x.pow(exp);
        let s = if exp % 2 == 1 { NEG } else { POS };
        assert!(check_i(&r, s, &acc));
    } else {
        let x = if base == 0 { ubig(&[]) } else { ubig(&[base]) };
        let r = x.pow(exp);
        assert!(check_u(&r, &acc));
    }
}
