//! C07: byte encodings and text parsing/printing of integers.
use crate::nd;
use crate::oracle;
use crate::shapes::*;
use core::fmt::Write;
use dashu_int::{IBig, Sign, UBig, Word};

const WB: usize = Word::BITS as usize;
const WBY: usize = WB / 8;

fn byte_of(t: &[Word], i: usize) -> u8 {
    // byte i of the infinite two's complement number t
    let w = i / WBY;
    let word = if w < t.len() {
        t[w]
    } else if t[t.len() - 1] >> (WB - 1) != 0 {
        Word::MAX
    } else {
        0
    };
    (word >> (8 * (i % WBY))) as u8
}

// ------------------------------------------------------------------ decoding arbitrary bytes

/// from_le_bytes / from_be_bytes of L arbitrary bytes (UBig): value = sum bytes[i] * 256^i
pub fn from_bytes_u<const L: usize, const M: usize>(be: bool) {
    let bytes: [u8; L] = nd::any();
    let mut m = [0 as Word; M]; // M = ceil(L / WBY) (at least 1)
    let mut i = 0;
    while i < L {
        let b = if be { bytes[L - 1 - i] } else { bytes[i] };
        m[i / WBY] |= (b as Word) << (8 * (i % WBY));
        i += 1;
    }
    let x = if be { UBig::from_be_bytes(&bytes) } else { UBig::from_le_bytes(&bytes) };
    assert!(check_u(&x, &m));
}

/// signed: two's complement with the sign taken from the top bit of the most significant byte
pub fn from_bytes_i<const L: usize, const M: usize>(be: bool) {
    let bytes: [u8; L] = nd::any();
    let mut t = [0 as Word; M]; // M = ceil(L / WBY) + 1 so that the sign extension is explicit
    let neg = L > 0 && (if be { bytes[0] } else { bytes[L - 1] }) >= 0x80;
    let mut i = 0;
    while i < M * WBY {
        let b = if i < L {
            if be {
                bytes[L - 1 - i]
            } else {
                bytes[i]
            }
        } else if neg {
            0xff
        } else {
            0
        };
        t[i / WBY] |= (b as Word) << (8 * (i % WBY));
        i += 1;
    }
    let mut m = [0 as Word; M];
    let s = oracle::from_twos(&t, &mut m);
    let x = if be { IBig::from_be_bytes(&bytes) } else { IBig::from_le_bytes(&bytes) };
    assert!(check_i(&x, s, &m));
}

// ------------------------------------------------------------------ encoding and round trip

/// UBig::to_le_bytes / to_be_bytes: exact bytes of the value, minimal length, and from(to(x)) == x
pub fn to_bytes_u<const N: usize>(be: bool, top: Word) {
    // the most significant word is a literal: the number of bytes (a Vec capacity) is then a constant
    // (with a symbolic top word CBMC runs out of memory on the symbolic-size Vec)
    let mut a = any_mag::<N>();
    if N > 0 {
        a[N - 1] = top;
    }
    let x = ubig(&a);
    let bytes = if be { x.to_be_bytes() } else { x.to_le_bytes() };
    let bl = if N == 0 { 0 } else { N * WB - a[N - 1].leading_zeros() as usize };
    let want_len = (bl + 7) / 8;
    assert!(bytes.len() == want_len);
    let mut t = [0 as Word; 8];
    let mut i = 0;
    while i < N {
        t[i] = a[i];
        i += 1;
    }
    i = 0;
    while i < want_len {
        let b = if be { bytes[want_len - 1 - i] } else { bytes[i] };
        assert!(b == byte_of(&t[..N + 1], i));
        i += 1;
    }
    let y = if be { UBig::from_be_bytes(&bytes) } else { UBig::from_le_bytes(&bytes) };
    assert!(check_u(&y, &a));
}

/// IBig::to_le_bytes / to_be_bytes: the bytes are a two's complement encoding of the value
/// (sign-extending them reproduces every byte of the value) and decode back to the same integer
pub fn to_bytes_i<const N: usize>(s: Sign, be: bool, top: Word) {
    let mut a = any_mag::<N>();
    if N > 0 {
        a[N - 1] = top;
    }
    let s = if N == 0 { POS } else { s };
    let x = ibig(s, &a);
    let bytes = if be { x.to_be_bytes() } else { x.to_le_bytes() };
    let len = bytes.len();
    assert!(len <= (N + 1) * WBY);
    let mut t = [0 as Word; 8];
    oracle::to_twos(s, &a, &mut t[..N + 2]);
    // every byte given equals the value's byte, and the remaining (implied) bytes are the sign extension
    let top = if len == 0 {
        0u8
    } else if be {
        bytes[0]
    } else {
        bytes[len - 1]
    };
    let ext = if top >= 0x80 { 0xffu8 } else { 0 };
    let mut i = 0;
    while i < (N + 2) * WBY {
        let want = byte_of(&t[..N + 2], i);
        let got = if i < len {
            if be {
                bytes[len - 1 - i]
            } else {
                bytes[i]
            }
        } else {
            ext
        };
        assert!(got == want, "byte encoding does not denote the value");
        i += 1;
    }
    let y = if be { IBig::from_be_bytes(&bytes) } else { IBig::from_le_bytes(&bytes) };
    assert!(check_i(&y, s, &a), "decoding the encoding gives a different integer");
}

/// two's complement byte encodings of LITERAL integers at word / byte boundaries (no symbolic input: the
/// symbolic versions are probes because the byte count is data dependent): to_* then from_* gives the value back
pub fn bytes_literals(which: u8) {
    // (sign, words)
    let w3: [Word; 3] = [0, 0, 1]; // 2^128
    let w3b: [Word; 3] = [1, 0, 1];
    let w4: [Word; 4] = [0, 0, 0, 1]; // 2^192
    let w2: [Word; 2] = [0, 1]; // 2^64
    let w2b: [Word; 2] = [0, 0x100]; // 2^72
    let w3c: [Word; 3] = [0, 0, 0x8000]; // 2^143
    let w3d: [Word; 3] = [0, 0, 0x100]; // 2^136
    let w3e: [Word; 3] = [0, 0, 0x80]; // 2^135
    let w3f: [Word; 3] = [Word::MAX, Word::MAX, 0xff]; // 2^136 - 1
    let w3g: [Word; 3] = [1, 0, 0x100]; // 2^136 + 1
    let cases: [(Sign, &[Word]); 16] = [
        (NEG, &w3), (POS, &w3), (NEG, &w3b), (NEG, &w4), (NEG, &w2), (POS, &w2), (NEG, &w2b), (NEG, &w3c), (POS, &w3c), (POS, &w4),
        (NEG, &w3d), (NEG, &w3e), (NEG, &w3f), (POS, &w3f), (NEG, &w3g), (POS, &w3e),
    ];
    let (s, w) = cases[which as usize];
    let x = ibig(s, w);
    let le = x.to_le_bytes();
    let y = IBig::from_le_bytes(&le);
    assert!(check_i(&y, s, w), "from_le_bytes(to_le_bytes(x)) != x");
    let be = x.to_be_bytes();
    let z = IBig::from_be_bytes(&be);
    assert!(check_i(&z, s, w), "from_be_bytes(to_be_bytes(x)) != x");
    assert!(le.len() == be.len());
    // the encoding is two's complement: the top bit of the most significant byte is the sign
    assert!((le[le.len() - 1] >= 0x80) == (s == NEG) && (be[0] >= 0x80) == (s == NEG), "sign bit of the encoding differs from the sign");
}

// ------------------------------------------------------------------ parsing arbitrary ASCII

fn digit_val(b: u8) -> Option<u32> {
    match b {
        b'0'..=b'9' => Some((b - b'0') as u32),
        b'a'..=b'z' => Some((b - b'a') as u32 + 10),
        b'A'..=b'Z' => Some((b - b'A') as u32 + 10),
        _ => None,
    }
}

/// reference parser: [sign] digit-or-underscore+ ; None = malformed. (value, negative, saw_digit)
fn ref_parse(bytes: &[u8], radix: u32, allow_minus: bool) -> Option<(u128, bool, bool)> {
    let mut i = 0;
    let mut neg = false;
    if !bytes.is_empty() && bytes[0] == b'+' {
        i = 1;
    } else if !bytes.is_empty() && bytes[0] == b'-' && allow_minus {
        neg = true;
        i = 1;
    }
    if i == bytes.len() {
        return None;
    }
    let mut acc: u128 = 0;
    let mut saw = false;
    while i < bytes.len() {
        let b = bytes[i];
        if b != b'_' {
            match digit_val(b) {
                Some(d) if d < radix => {
                    acc = acc * radix as u128 + d as u128;
                    saw = true;
                }
                _ => return None,
            }
        }
        i += 1;
    }
    Some((acc, neg, saw))
}

fn words_of(v: u128) -> [Word; 128 / WB] {
    let mut a = [0 as Word; 128 / WB];
    let mut i = 0;
    while i < 128 / WB {
        a[i] = (v >> (i * WB)) as Word;
        i += 1;
    }
    a
}

/// from_str_radix on L arbitrary ASCII bytes, radix concrete: same value or both reject.
/// `underscores`: whether '_' may occur (the non-power-of-two parser then builds a filtered Vec)
pub fn parse_radix<const L: usize>(radix: u32, signed: bool, underscores: bool) {
    let bytes: [u8; L] = nd::any();
    let mut i = 0;
    while i < L {
        nd::assume(bytes[i] < 0x80);
        if !underscores {
            nd::assume(bytes[i] != b'_');
        }
        i += 1;
    }
    // SAFETY: all bytes are ASCII
    let s = unsafe { core::str::from_utf8_unchecked(&bytes) };
    let want = ref_parse(&bytes, radix, signed);
    // strings made of underscores only (after the sign) are outside the claim (see DESIGN C07)
    if let Some((_, _, false)) = want {
        return;
    }
    if signed {
        match (IBig::from_str_radix(s, radix), want) {
            (Ok(x), Some((v, neg, _))) => {
                assert!(check_i(&x, if neg { NEG } else { POS }, &words_of(v)), "parsed a different number");
            }
            (Err(_), None) => {}
            (Ok(_), None) => panic!("malformed text accepted"),
            (Err(_), Some(_)) => panic!("well-formed text rejected"),
        }
    } else {
        match (UBig::from_str_radix(s, radix), want) {
            (Ok(x), Some((v, _, _))) => assert!(check_u(&x, &words_of(v)), "parsed a different number"),
            (Err(_), None) => {}
            (Ok(_), None) => panic!("malformed text accepted"),
            (Err(_), Some(_)) => panic!("well-formed text rejected"),
        }
    }
}

/// radix prefixes 0b / 0o / 0x and the default radix
pub fn parse_prefix<const L: usize>(signed: bool) {
    let bytes: [u8; L] = nd::any();
    let mut i = 0;
    while i < L {
        nd::assume(bytes[i] < 0x80 && bytes[i] != b'_');
        i += 1;
    }
    parse_prefix_bytes::<L>(&bytes, signed);
}

/// a LITERAL text with one SYMBOLIC byte at `hole` (any ASCII except '_'): the parsers' control flow is
/// concrete except where it looks at that byte - sign position, prefix letter, first digit, inner digit
pub fn parse_template<const L: usize>(tmpl: [u8; L], hole: usize, signed: bool) {
    let b: u8 = nd::any();
    nd::assume(b < 0x80 && b != b'_');
    let mut bytes = tmpl;
    bytes[hole] = b;
    parse_prefix_bytes::<L>(&bytes, signed);
}

fn parse_prefix_bytes<const L: usize>(bytes: &[u8; L], signed: bool) {
    let s = unsafe { core::str::from_utf8_unchecked(&bytes[..]) };
    // reference: strip sign, look at prefix
    let mut st = 0;
    let mut neg = false;
    if L > 0 && bytes[0] == b'+' {
        st = 1;
    } else if L > 0 && bytes[0] == b'-' && signed {
        st = 1;
        neg = true;
    }
    let (radix, body) = if L >= st + 2 && bytes[st] == b'0' && bytes[st + 1] == b'b' {
        (2, st + 2)
    } else if L >= st + 2 && bytes[st] == b'0' && bytes[st + 1] == b'o' {
        (8, st + 2)
    } else if L >= st + 2 && bytes[st] == b'0' && bytes[st + 1] == b'x' {
        (16, st + 2)
    } else {
        (10, st)
    };
    let mut want: Option<u128> = if body == L { None } else { Some(0) };
    let mut j = body;
    while j < L {
        want = match (want, digit_val(bytes[j])) {
            (Some(acc), Some(d)) if d < radix => Some(acc * radix as u128 + d as u128),
            _ => None,
        };
        j += 1;
    }
    if signed {
        match (IBig::from_str_with_radix_prefix(s), want) {
            (Ok((x, r)), Some(v)) => {
                assert!(r == radix);
                assert!(check_i(&x, if neg { NEG } else { POS }, &words_of(v)));
            }
            (Err(_), None) => {}
            (Ok(_), None) => panic!("malformed text accepted"),
            (Err(_), Some(_)) => panic!("well-formed text rejected"),
        }
    } else {
        match (UBig::from_str_with_radix_prefix(s), want) {
            (Ok((x, r)), Some(v)) => {
                assert!(r == radix);
                assert!(check_u(&x, &words_of(v)));
            }
            (Err(_), None) => {}
            (Ok(_), None) => panic!("malformed text accepted"),
            (Err(_), Some(_)) => panic!("well-formed text rejected"),
        }
    }
}

/// LITERAL texts through the prefixed parsers (no symbolic input; the symbolic versions are probes): the
/// reference above decides what each must give
pub fn parse_literals(which: u8) {
    match which {
        0 => parse_prefix_bytes::<5>(b"0x+ff", false),
        1 => parse_prefix_bytes::<5>(b"0x+ff", true),
        2 => parse_prefix_bytes::<5>(b"0x-ff", true),
        3 => parse_prefix_bytes::<6>(b"+0b+11", false),
        4 => parse_prefix_bytes::<6>(b"-0o+17", true),
        5 => parse_prefix_bytes::<2>(b"0x", false),
        6 => parse_prefix_bytes::<3>(b"-0b", true),
        7 => parse_prefix_bytes::<2>(b"+-", true),
        8 => parse_prefix_bytes::<3>(b"--1", true),
        9 => parse_prefix_bytes::<3>(b"++1", false),
        10 => parse_prefix_bytes::<4>(b"-0xF", true),
        11 => parse_prefix_bytes::<4>(b"0b12", false),
        12 => parse_prefix_bytes::<4>(b"0o78", false),
        13 => parse_prefix_bytes::<4>(b"0xfg", false),
        14 => parse_prefix_bytes::<3>(b"12a", false),
        15 => parse_prefix_bytes::<0>(b"", false),
        16 => parse_prefix_bytes::<2>(b"1-", true),
        17 => parse_prefix_bytes::<2>(b"-5", false),
        18 => parse_prefix_bytes::<6>(b"0X1234", false),
        _ => parse_prefix_bytes::<4>(b" 0x1", false),
    }
}

/// power-of-two radix across the word boundary: L digits of radix 2^k, all valid digits, no separators
pub fn parse_pow2_long<const L: usize, const M: usize>(log_radix: u32) {
    let digs: [u8; L] = nd::any();
    let mut bytes = [0u8; L];
    let mut m = [0 as Word; M]; // M = ceil(L*k / W)
    let mut i = 0;
    while i < L {
        let d = digs[i] & ((1 << log_radix) - 1);
        bytes[i] = if d < 10 { b'0' + d } else { b'a' + d - 10 };
        // digit i (from the left) has weight (L-1-i)
        let pos = (L - 1 - i) * log_radix as usize;
        m[pos / WB] |= (d as Word) << (pos % WB);
        if pos % WB + log_radix as usize > WB {
            m[pos / WB + 1] |= (d as Word) >> (WB - pos % WB);
        }
        i += 1;
    }
    let s = unsafe { core::str::from_utf8_unchecked(&bytes) };
    match UBig::from_str_radix(s, 1 << log_radix) {
        Ok(x) => assert!(check_u(&x, &m)),
        Err(_) => panic!("valid digits rejected"),
    }
}

// ------------------------------------------------------------------ printing

pub struct Sink {
    pub buf: [u8; 136],
    pub n: usize,
}
impl Write for Sink {
    fn write_str(&mut self, s: &str) -> core::fmt::Result {
        let b = s.as_bytes();
        let mut i = 0;
        while i < b.len() {
            if self.n < 136 {
                self.buf[self.n] = b[i];
            }
            self.n += 1;
            i += 1;
        }
        Ok(())
    }
}

/// reference positional digits of v in `radix`, lower case, written into out (returns length)
fn ref_digits(mut v: u128, radix: u32, upper: bool, out: &mut [u8; 130]) -> usize {
    let mut tmp = [0u8; 130];
    let mut n = 0;
    if v == 0 {
        tmp[0] = b'0';
        n = 1;
    }
    while v > 0 {
        let d = (v % radix as u128) as u8;
        tmp[n] = if d < 10 {
            b'0' + d
        } else if upper {
            b'A' + d - 10
        } else {
            b'a' + d - 10
        };
        v /= radix as u128;
        n += 1;
    }
    let mut i = 0;
    while i < n {
        out[i] = tmp[n - 1 - i];
        i += 1;
    }
    n
}

/// in_radix(r) Display of a value below 2^bits: digits are the positional representation,
/// '-' + magnitude for negatives, and parsing the text gives the number back
pub fn print_radix(radix: u32, bits: u32, neg: bool, upper: bool) {
    let v: u128 = nd::any();
    nd::assume(bits == 128 || v < (1u128 << bits));
    let neg = neg && v != 0;
    let w = words_of(v);
    let x = ibig(if neg { NEG } else { POS }, &w[..sig_len(&w)]);
    let mut sink = Sink { buf: [0; 136], n: 0 };
    if upper {
        write!(sink, "{:#}", x.in_radix(radix)).unwrap();
    } else {
        write!(sink, "{}", x.in_radix(radix)).unwrap();
    }
    let mut want = [0u8; 130];
    let n = ref_digits(v, radix, upper, &mut want);
    let off = neg as usize;
    assert!(sink.n == n + off);
    if neg {
        assert!(sink.buf[0] == b'-');
    }
    let mut i = 0;
    while i < n {
        assert!(sink.buf[i + off] == want[i]);
        i += 1;
    }
}

// ------------------------------------------------------------------ formatter flags vs Rust's primitive formatting

fn sink_eq(a: &Sink, b: &Sink) -> bool {
    if a.n != b.n {
        return false;
    }
    let mut i = 0;
    while i < a.n && i < 136 {
        if a.buf[i] != b.buf[i] {
            return false;
        }
        i += 1;
    }
    true
}

macro_rules! flag_case {
    ($spec:literal, $x:expr, $p:expr) => {{
        let mut s1 = Sink { buf: [0; 136], n: 0 };
        let mut s2 = Sink { buf: [0; 136], n: 0 };
        write!(s1, $spec, $x).unwrap();
        write!(s2, $spec, $p).unwrap();
        assert!(sink_eq(&s1, &s2), "layout differs from the primitive's formatting");
    }};
}

/// UBig formatted with width / fill / alignment / + / # / 0 flags equals the same u32 formatted by Rust
pub fn fmt_flags_u(which: u8) {
    let v: u32 = nd::any();
    let x = if v == 0 { ubig(&[]) } else { ubig(&[v as Word]) };
    match which {
        0 => flag_case!("{:12}", x, v),
        1 => flag_case!("{:<12}", x, v),
        2 => flag_case!("{:^13}", x, v),
        3 => flag_case!("{:*>+12}", x, v),
        4 => flag_case!("{:012}", x, v),
        5 => flag_case!("{:+012}", x, v),
        6 => flag_case!("{:#x}", x, v),
        7 => flag_case!("{:#012x}", x, v),
        8 => flag_case!("{:>#12X}", x, v),
        9 => flag_case!("{:#b}", x, v),
        10 => flag_case!("{:^#14o}", x, v),
        11 => flag_case!("{:3}", x, v),
        12 => flag_case!("{:+}", x, v),
        _ => flag_case!("{:#040b}", x, v),
    }
}

/// IBig in decimal equals i32 formatting for every flag combination listed
pub fn fmt_flags_i(which: u8) {
    let v: i32 = nd::any();
    nd::assume(v != i32::MIN);
    let m = v.unsigned_abs();
    let x = if v == 0 { ibig(POS, &[]) } else { ibig(if v < 0 { NEG } else { POS }, &[m as Word]) };
    match which {
        0 => flag_case!("{:12}", x, v),
        1 => flag_case!("{:<12}", x, v),
        2 => flag_case!("{:^13}", x, v),
        3 => flag_case!("{:*>+12}", x, v),
        4 => flag_case!("{:012}", x, v),
        5 => flag_case!("{:+012}", x, v),
        6 => flag_case!("{:+}", x, v),
        _ => flag_case!("{:3}", x, v),
    }
}
