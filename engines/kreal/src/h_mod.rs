//! C13: reduced-ring arithmetic is the homomorphic image of integer arithmetic.
//! Moduli are literals (a symbolic modulus makes the reciprocal computation symbolic - out of reach);
//! ring elements are +-p for a symbolic small p, so that every reduction branch (wrap below 0, wrap at m,
//! multi-word conditional subtraction) is taken while the oracle stays in small signed arithmetic.
use crate::nd;
use crate::oracle;
use crate::shapes::*;
use dashu_int::fast_div::ConstDivisor;
use dashu_int::{IBig, Sign, UBig, Word};

const WB: usize = Word::BITS as usize;

fn words_i(v: i128) -> (bool, [Word; 128 / WB]) {
    let m = v.unsigned_abs();
    let mut a = [0 as Word; 128 / WB];
    let mut i = 0;
    while i < 128 / WB {
        a[i] = (m >> (i * WB)) as Word;
        i += 1;
    }
    (v < 0, a)
}

/// the residue in [0, m) of the small signed value v (|v| < m by construction when m has several words)
fn expect<const NM: usize>(v: i128, m: &[Word; NM]) -> [Word; 4] {
    // a one-word modulus can be smaller than |v| (pow): reduce with the primitive remainder first
    let v = if NM == 1 { v.rem_euclid(m[0] as i128) } else { v };
    let (neg, a) = words_i(v);
    let mut out = [0 as Word; 4];
    if !neg || v == 0 {
        let mut i = 0;
        while i < a.len() && i < 4 {
            out[i] = a[i];
            i += 1;
        }
    } else {
        oracle::sub(m, &a, &mut out);
    }
    out
}

/// reduce v (given as IBig) modulo the literal modulus m until it is a canonical residue (m > |v| not required)
fn elem<'a>(ring: &'a ConstDivisor, neg: bool, p: Word) -> dashu_int::modular::Reduced<'a> {
    let x = if p == 0 {
        ibig(POS, &[])
    } else {
        ibig(if neg { NEG } else { POS }, &[p])
    };
    ring.reduce(x)
}

/// op: 0 add, 1 sub, 2 mul, 3 neg, 4 dbl, 5 sqr, 6 pow(e), 7 add_assign/&, 8 mul by ref
pub fn ring_op<const NM: usize>(m: [Word; NM], op: u8, e: u32, bits: u32) {
    let p: Word = nd::any();
    let q: Word = nd::any();
    let sa: bool = nd::any();
    let sb: bool = nd::any();
    nd::assume(p < (1 << bits) && q < (1 << bits));
    // |values| stay below the modulus: m has either several words or is >= 2^(2*bits+2)
    let ring = ConstDivisor::new(ubig(&m));
    let a = elem(&ring, sa, p);
    let b = elem(&ring, sb, q);
    let (va, vb) = (
        if sa { -(p as i128) } else { p as i128 },
        if sb { -(q as i128) } else { q as i128 },
    );
    let (r, v) = match op {
        0 => (a + b, va + vb),
        1 => (a - b, va - vb),
        2 => (a * b, va * vb),
        3 => (-a, -va),
        4 => (a.dbl(), 2 * va),
        5 => (a.sqr(), va * va),
        6 => {
            let mut acc: i128 = 1;
            let mut i = 0;
            while i < e {
                acc *= va;
                i += 1;
            }
            (a.pow(&ubig(&[e as Word])), acc)
        }
        7 => {
            let mut x = a;
            x += &b;
            x -= b.clone();
            x += b;
            (x, va + vb)
        }
        _ => (&a * &b, va * vb),
    };
    let res = r.residue();
    assert!(canonical_u(&res));
    let want = expect::<NM>(v, &m);
    assert!(words_eq(res.as_words(), &want), "residue differs from the integer result reduced mod m");
    let md = r.modulus();
    assert!(words_eq(md.as_words(), &m));
    core::mem::forget(r);
    core::mem::forget(ring);
}

/// reduce() of an arbitrary small-ish integer against a small literal modulus: residue == a mod m, in range
pub fn reduce_small(m: Word, neg: bool) {
    let a: u32 = nd::any();
    let ring = ConstDivisor::new(ubig(&[m]));
    let x = if a == 0 { ibig(POS, &[]) } else { ibig(if neg { NEG } else { POS }, &[a as Word]) };
    let r = ring.reduce(x).residue();
    let w = r.as_words();
    let rv = if w.is_empty() { 0 } else { w[0] };
    assert!(w.len() <= 1 && rv < m);
    let want = if neg { (m - (a as Word % m)) % m } else { a as Word % m };
    assert!(rv == want);
    core::mem::forget(ring);
}

fn gcd_small(mut a: Word, mut b: Word) -> Word {
    while b != 0 {
        let t = a % b;
        a = b;
        b = t;
    }
    a
}

/// inv / division in a small single-word ring: Some(x) with a*x = 1 exactly when gcd(a, m) = 1
pub fn ring_inv(m: Word) {
    let a: Word = nd::any();
    nd::assume(a < m);
    let ring = ConstDivisor::new(ubig(&[m]));
    let x = ring.reduce(a as u64);
    let g = gcd_small(a, m);
    match x.inv() {
        Some(y) => {
            assert!(g == 1 || m == 1, "inverse returned for a non-invertible element");
            let yv = {
                let r = y.residue();
                let w = r.as_words();
                if w.is_empty() {
                    0
                } else {
                    w[0]
                }
            };
            assert!(yv < m && (a as u128 * yv as u128) % m as u128 == 1 % m as u128);
        }
        None => assert!(g != 1, "no inverse although gcd(a, m) = 1"),
    }
    core::mem::forget(ring);
}

/// a multi-word ring m = f * c (literals) and elements a = +-k*f (k symbolic small): gcd(a, m) is a
/// multiple of the multi-word f, so inv() must be None; and elements +-k with gcd(k, m) = 1 must invert
pub fn ring_inv_large<const NM: usize>(m: [Word; NM], f: [Word; 2], bits: u32) {
    let k: Word = nd::any();
    let neg: bool = nd::any();
    nd::assume(k != 0 && k < (1 << bits));
    let ring = ConstDivisor::new(ubig(&m));
    // k * f as a 3-word natural
    let mut kf = [0 as Word; 3];
    oracle::mul(&f, &[k], &mut kf);
    let n = sig_len(&kf);
    let x = ring.reduce(ibig(if neg { NEG } else { POS }, &kf[..n]));
    match x.inv() {
        None => {}
        Some(_) => panic!("inverse returned for an element sharing the factor f with the modulus"),
    }
    core::mem::forget(ring);
}

/// multi-word ring inverse (modular/div.rs `inv_large`, through the verification hook) at LITERAL points:
/// two 3-word moduli m = (2^64+1)*c (one normalised, one needing a shift) and residues of 1, 2 and 3 words,
/// with and without a common factor (including a multi-word gcd whose lowest word is 1); expected values
/// are constants computed outside (Python pow(a, -1, m))
#[cfg(not(force_bits = "64"))]
pub fn ring_inv_large_literals(_which: u8) {}

/// (64-bit words only: the table holds 64-bit literals)
#[cfg(force_bits = "64")]
pub fn ring_inv_large_literals(which: u8) {
    let (m, a, want): (&[Word], &[Word], Option<[Word; 3]>) = match which {
        0 => (&[3,4,1], &[1,1], None),
        1 => (&[3,4,1], &[3,3], None),
        2 => (&[3,4,1], &[2,2], None),
        3 => (&[3,4,1], &[1,2,1], None),
        4 => (&[3,4,1], &[5], Some([2,11068046444225730972,0])),
        5 => (&[3,4,1], &[2,1], Some([2,1,0])),
        6 => (&[3,4,1], &[12345,68719476736], Some([4512359598375357663,5395363044116230147,0])),
        7 => (&[3,4,1], &[9,9223372036854775872], Some([5904304408245379833,10304445196469676549,0])),
        8 => (&[3,4,1], &[2,4,1], Some([2,4,1])),
        9 => (&[3,4,1], &[2,3,1], None),
        10 => (&[21,27,6], &[1,1], None),
        11 => (&[21,27,6], &[3,3], None),
        12 => (&[21,27,6], &[5,6,1], None),
        13 => (&[21,27,6], &[1,2,1], None),
        14 => (&[21,27,6], &[5], Some([11068046444225730974,3689348814741910328,1])),
        15 => (&[21,27,6], &[2,1], None),
        16 => (&[21,27,6], &[12345,68719476736], Some([363407706539826622,1246411152280699111,5])),
        17 => (&[21,27,6], &[9,9223372036854775872], None),
        18 => (&[21,27,6], &[20,27,6], Some([20,27,6])),
        19 => (&[21,27,6], &[20,26,6], None),
        _ => return,
    };
    let got = dashu_int::verif::modular_large::verif_inv_large(m, a);
    match (got, want) {
        (None, None) => {}
        (Some(x), Some(w)) => assert!(x.len() == 3 && x[0] == w[0] && x[1] == w[1] && x[2] == w[2], "wrong inverse in a multi-word ring"),
        (Some(_), None) => panic!("inverse returned for an element sharing a factor with the modulus"),
        (None, Some(_)) => panic!("no inverse although gcd(a, m) = 1"),
    }
}

/// multi-word ring kernels (modular/add.rs) through the verification hook: raw residues are symbolic
/// values below the literal modulus (pre-shifted by the normalisation shift), result = (a op b) mod m
pub fn ring_large_kernel<const NM: usize>(m: [Word; NM], op: u8) {
    use core::cmp::Ordering;
    let a: [Word; NM] = nd::any();
    let b: [Word; NM] = nd::any();
    nd::assume(oracle::cmp(&a, &m) == Ordering::Less && oracle::cmp(&b, &m) == Ordering::Less);
    // expected value
    let mut want = [0 as Word; NM];
    let mut tmp = [0 as Word; NM];
    match op {
        0 => {
            let carry = oracle::add(&a, &b, &mut tmp);
            if carry || oracle::cmp(&tmp, &m) != Ordering::Less {
                oracle::sub(&tmp, &m, &mut want);
            } else {
                want = tmp;
            }
        }
        1 => {
            if oracle::sub(&a, &b, &mut tmp) {
                oracle::add(&tmp, &m, &mut want);
            } else {
                want = tmp;
            }
        }
        2 => {
            if oracle::is_zero(&a) {
                want = a;
            } else {
                oracle::sub(&m, &a, &mut want);
            }
        }
        3 => {
            let carry = oracle::add(&a, &a, &mut tmp);
            if carry || oracle::cmp(&tmp, &m) != Ordering::Less {
                oracle::sub(&tmp, &m, &mut want);
            } else {
                want = tmp;
            }
        }
        _ => {
            // swapped subtraction: b := a - b
            if oracle::sub(&a, &b, &mut tmp) {
                oracle::add(&tmp, &m, &mut want);
            } else {
                want = tmp;
            }
        }
    }
    // raw residues: shifted left by the normalisation shift of m (leading zeros of its top word)
    let sh = m[NM - 1].leading_zeros();
    let shl = |x: &[Word; NM]| -> [Word; NM] {
        let mut o = [0 as Word; NM];
        let mut i = 0;
        while i < NM {
            let lo = if i > 0 && sh > 0 { x[i - 1] >> (Word::BITS - sh) } else { 0 };
            o[i] = (x[i] << sh) | lo;
            i += 1;
        }
        o
    };
    let (ra, rb) = (shl(&a), shl(&b));
    let (res, shift) = dashu_int::verif::modular_large::verif_large_op(&m, &ra, &rb, op);
    assert!(shift == sh);
    let rw = shl(&want);
    assert!(res.len() == NM);
    let mut i = 0;
    while i < NM {
        assert!(res[i] == rw[i], "ring kernel result differs from (a op b) mod m");
        i += 1;
    }
}

/// mixing elements of two ConstDivisor instances (same modulus value) panics
pub fn ring_mix(op: u8) {
    let ring1 = ConstDivisor::new(ubig(&[10007]));
    let ring2 = ConstDivisor::new(ubig(&[10007]));
    let p: u16 = nd::any();
    let a = ring1.reduce(p);
    let b = ring2.reduce(3u8);
    match op {
        0 => core::mem::forget(a + b),
        1 => core::mem::forget(a - b),
        2 => core::mem::forget(a * b),
        _ => core::mem::forget(a == b),
    }
    cover!(true, "returned");
}
