//! C03 / C10: the rounding primitives of dashu-float (Round::round_low_part / round_fract / round_ratio)
//! return exactly what the definition of each mode prescribes.  C15: FBig shift forms agree.
use crate::nd;
use crate::shapes::*;
use core::cmp::Ordering;
use dashu_float::round::{mode, Round, Rounding};
use dashu_float::FBig;
use dashu_int::{IBig, Sign, UBig, Word};

/// definition: value x = I + L, 0 < |L| < 1, sign(L) = lpos, |L| cmp 1/2 = ord
fn define(m: u8, i: i64, lpos: bool, ord: Ordering) -> Rounding {
    let toward_l = if lpos { Rounding::AddOne } else { Rounding::SubOne };
    let x_pos = i > 0 || (i == 0 && lpos);
    match m {
        // Zero: truncate x
        0 => {
            if x_pos == lpos {
                Rounding::NoOp
            } else {
                toward_l
            }
        }
        // Away
        1 => {
            if x_pos == lpos {
                toward_l
            } else {
                Rounding::NoOp
            }
        }
        // Up (ceil)
        2 => {
            if lpos {
                Rounding::AddOne
            } else {
                Rounding::NoOp
            }
        }
        // Down (floor)
        3 => {
            if lpos {
                Rounding::NoOp
            } else {
                Rounding::SubOne
            }
        }
        // HalfEven
        4 => match ord {
            Ordering::Less => Rounding::NoOp,
            Ordering::Greater => toward_l,
            Ordering::Equal => {
                if i % 2 == 0 {
                    Rounding::NoOp
                } else {
                    toward_l
                }
            }
        },
        // HalfAway
        _ => match ord {
            Ordering::Less => Rounding::NoOp,
            Ordering::Greater => toward_l,
            Ordering::Equal => {
                if x_pos == lpos {
                    toward_l
                } else {
                    Rounding::NoOp
                }
            }
        },
    }
}

fn any_ord() -> Ordering {
    let o: u8 = nd::any();
    match o % 3 {
        0 => Ordering::Less,
        1 => Ordering::Equal,
        _ => Ordering::Greater,
    }
}

fn small_i(i: i64) -> IBig {
    if i == 0 {
        ibig(POS, &[])
    } else {
        ibig(if i < 0 { NEG } else { POS }, &[i.unsigned_abs() as Word])
    }
}

fn rlp<R: Round>(m: u8) {
    let i: i64 = nd::any();
    nd::assume(i > -(1 << 40) && i < (1 << 40));
    let lpos: bool = nd::any();
    let ord = any_ord();
    let x = small_i(i);
    let r = R::round_low_part(&x, if lpos { POS } else { NEG }, || ord);
    assert!(r == define(m, i, lpos, ord));
}

pub fn round_low_part(m: u8) {
    match m {
        0 => rlp::<mode::Zero>(0),
        1 => rlp::<mode::Away>(1),
        2 => rlp::<mode::Up>(2),
        3 => rlp::<mode::Down>(3),
        4 => rlp::<mode::HalfEven>(4),
        _ => rlp::<mode::HalfAway>(5),
    }
}

fn pow_u(b: u64, p: u32) -> u64 {
    let mut r = 1u64;
    let mut i = 0;
    while i < p {
        r *= b;
        i += 1;
    }
    r
}

fn rfract<R: Round, const B: Word>(m: u8, p: u32) {
    let i: i64 = nd::any();
    nd::assume(i > -(1 << 20) && i < (1 << 20));
    let f: i64 = nd::any();
    let bp = pow_u(B as u64, p) as i64;
    nd::assume(f > -bp && f < bp);
    let r = R::round_fract::<B>(&small_i(i), small_i(f), p as usize);
    if f == 0 {
        assert!(r == Rounding::NoOp);
    } else {
        let ord = (2 * f.abs()).cmp(&bp);
        assert!(r == define(m, i, f > 0, ord));
    }
}

/// round_fract::<B>(integer, fract, precision) for |fract| < B^p
pub fn round_fract<const B: Word>(m: u8, p: u32) {
    match m {
        0 => rfract::<mode::Zero, B>(0, p),
        1 => rfract::<mode::Away, B>(1, p),
        2 => rfract::<mode::Up, B>(2, p),
        3 => rfract::<mode::Down, B>(3, p),
        4 => rfract::<mode::HalfEven, B>(4, p),
        _ => rfract::<mode::HalfAway, B>(5, p),
    }
}

fn rratio<R: Round>(m: u8, bits: u32) {
    let i: i64 = nd::any();
    nd::assume(i > -(1 << 20) && i < (1 << 20));
    let n: i64 = nd::any();
    let d: i64 = nd::any();
    nd::assume(d != 0 && d > -(1 << bits) && d < (1 << bits) && n >= -(1 << bits) && n <= (1 << bits) && n.abs() <= d.abs());
    let r = R::round_ratio(&small_i(i), small_i(n), &small_i(d));
    if n == 0 {
        assert!(r == Rounding::NoOp);
    } else if n.abs() == d.abs() {
        // |num| == |den| is permitted by the precondition (fraction = +-1): nothing to compare against
    } else {
        let lpos = (n > 0) == (d > 0);
        let ord = (2 * n.abs()).cmp(&d.abs());
        assert!(r == define(m, i, lpos, ord));
    }
}

pub fn round_ratio(m: u8, bits: u32) {
    match m {
        0 => rratio::<mode::Zero>(0, bits),
        1 => rratio::<mode::Away>(1, bits),
        2 => rratio::<mode::Up>(2, bits),
        3 => rratio::<mode::Down>(3, bits),
        4 => rratio::<mode::HalfEven>(4, bits),
        _ => rratio::<mode::HalfAway>(5, bits),
    }
}

/// integer + Rounding
pub fn add_rounding() {
    let i: i64 = nd::any();
    nd::assume(i > -(1 << 40) && i < (1 << 40));
    let w: u8 = nd::any();
    let (r, d) = match w % 3 {
        0 => (Rounding::NoOp, 0),
        1 => (Rounding::AddOne, 1),
        _ => (Rounding::SubOne, -1),
    };
    let x = small_i(i) + r;
    let want = i + d;
    let (s, wds) = x.as_sign_words();
    let mag = if wds.is_empty() { 0 } else { wds[0] };
    assert!(wds.len() <= 1 && mag == want.unsigned_abs() as Word && (want == 0 || (s == NEG) == (want < 0)));
}

// ------------------------------------------------------------------ C15: float shift forms

/// x << k and x <<= k (right == false) or x >> k and x >>= k (right == true) agree on (significand, exponent)
/// and equal plain exponent arithmetic
pub fn fbig_shift<const B: Word>(right: bool) {
    let sig: i64 = nd::any();
    nd::assume(sig > -(1 << 30) && sig < (1 << 30) && sig % (B as i64) != 0);
    let e: i32 = nd::any();
    let k: i32 = nd::any();
    nd::assume(e > -1000 && e < 1000 && k > -1000 && k < 1000);
    let mk = || FBig::<mode::Zero, B>::from_parts(small_i(sig), e as isize);
    let get = |x: &FBig<mode::Zero, B>| -> (i64, isize) {
        let r = x.repr();
        let (s, w) = r.significand().as_sign_words();
        let m = if w.is_empty() { 0 } else { w[0] as i64 };
        (if s == NEG { -m } else { m }, r.exponent())
    };
    if right {
        let c = mk() >> k as isize;
        let mut d = mk();
        d >>= k as isize;
        assert!(get(&c) == (sig, (e - k) as isize));
        assert!(get(&d) == get(&c), ">>= differs from >>");
    } else {
        let a = mk() << k as isize;
        let mut b = mk();
        b <<= k as isize;
        assert!(get(&a) == (sig, (e + k) as isize));
        assert!(get(&b) == get(&a), "<<= differs from <<");
    }
}

/// zero stays zero under every shift form
pub fn fbig_shift_zero() {
    let k: i32 = nd::any();
    nd::assume(k > -1000 && k < 1000);
    let z = || FBig::<mode::Zero, 10>::ZERO;
    let a = z() << k as isize;
    let mut b = z();
    b <<= k as isize;
    let c = z() >> k as isize;
    let mut d = z();
    d >>= k as isize;
    let ok = |x: &FBig<mode::Zero, 10>| x.repr().significand().is_zero() && x.repr().exponent() == 0;
    assert!(ok(&a) && ok(&b) && ok(&c));
    assert!(ok(&d), "zero >>= k is no longer the canonical zero");
}

/// C10 on FBig itself, base B, LITERAL exponent -k and every normalised significand |sig| < 2^bits:
/// op 0 trunc, 1 floor, 2 ceil, 3 round (ties away from zero), 4 fract, 5 split_at_point (trunc + fract = x).
/// Oracle: i64 arithmetic on sig and B^k.
pub fn fbig_round_ops<const B: Word>(k: u32, op: u8, bits: u32) {
    let sig: i64 = nd::any();
    nd::assume(sig > -(1 << bits) && sig < (1 << bits) && sig % (B as i64) != 0);
    let mut pow: i64 = 1;
    let mut i = 0;
    while i < k {
        pow *= B as i64;
        i += 1;
    }
    let x = FBig::<mode::Zero, B>::from_parts(small_i(sig), -(k as isize));
    let get = |x: &FBig<mode::Zero, B>| -> (i64, isize) {
        let r = x.repr();
        let (s, w) = r.significand().as_sign_words();
        assert!(w.len() <= 1);
        let m = if w.is_empty() { 0 } else { w[0] as i64 };
        (if s == NEG { -m } else { m }, r.exponent())
    };
    // value of (s, e) scaled by B^k, as an integer (e + k >= 0 required)
    let scaled = |(s, e): (i64, isize)| -> i64 {
        let n = e + k as isize;
        assert!(n >= 0 && n <= 40, "result has digits below the input's last digit");
        let mut v = s;
        let mut j = 0;
        while j < n {
            v *= B as i64;
            j += 1;
        }
        v
    };
    let t = sig / pow; // toward zero
    let r = sig % pow; // sign of sig
    let want_int = match op {
        0 => t,
        1 => sig.div_euclid(pow),
        2 => -((-sig).div_euclid(pow)),
        _ => {
            if 2 * r.abs() >= pow {
                t + if sig < 0 { -1 } else { 1 }
            } else {
                t
            }
        }
    };
    match op {
        0 => assert!(scaled(get(&x.trunc())) == want_int * pow, "trunc"),
        1 => assert!(scaled(get(&x.floor())) == want_int * pow, "floor"),
        2 => assert!(scaled(get(&x.ceil())) == want_int * pow, "ceil"),
        3 => assert!(scaled(get(&x.round())) == want_int * pow, "round (ties away from zero)"),
        4 => assert!(scaled(get(&x.fract())) == r, "fract"),
        _ => {
            let (a, b) = x.split_at_point();
            assert!(scaled(get(&a)) == t * pow && scaled(get(&b)) == r, "split_at_point");
        }
    }
}
