//! C06: conversions between primitives and big integers are lossless or refused; to_f32/to_f64 are
//! correctly rounded (nearest even) and flag exactness and the error sign truthfully.
use crate::h_enc::encode_ref;
use crate::nd;
use crate::oracle;
use crate::shapes::*;
use dashu_base::{Approximation, ConversionError, Sign as BSign};
use dashu_int::{IBig, Sign, UBig, Word};

const WB: usize = Word::BITS as usize;
const NW: usize = 128 / WB; // words in a u128

fn words_of(v: u128) -> [Word; NW] {
    let mut a = [0 as Word; NW];
    let mut i = 0;
    while i < NW {
        a[i] = (v >> (i * WB)) as Word;
        i += 1;
    }
    a
}

/// value of a magnitude of at most NW words
fn u128_of(a: &[Word]) -> u128 {
    let mut v: u128 = 0;
    let mut i = 0;
    while i < a.len() && i < NW {
        v |= (a[i] as u128) << (i * WB);
        i += 1;
    }
    v
}

macro_rules! from_unsigned {
    ($t:ty) => {{
        let v: $t = nd::any();
        let m = words_of(v as u128);
        let x = UBig::from(v);
        assert!(check_u(&x, &m));
        let y = IBig::from(v);
        assert!(check_i(&y, POS, &m));
        // and back
        assert!(<$t>::try_from(&x) == Ok(v));
        assert!(<$t>::try_from(y) == Ok(v));
    }};
}
macro_rules! from_signed {
    ($t:ty) => {{
        let v: $t = nd::any();
        let m = words_of(v.unsigned_abs() as u128);
        let y = IBig::from(v);
        assert!(check_i(&y, if v < 0 { NEG } else { POS }, &m));
        match UBig::try_from(v) {
            Ok(x) => {
                assert!(v >= 0);
                assert!(check_u(&x, &m));
                assert!(<$t>::try_from(x) == Ok(v));
            }
            Err(e) => assert!(v < 0 && e == ConversionError::OutOfBounds),
        }
        assert!(<$t>::try_from(&y) == Ok(v));
    }};
}

/// From<primitive> / TryFrom<primitive> for UBig/IBig and the round trip, one primitive type per harness
pub fn from_prim(which: u8) {
    match which {
        0 => from_unsigned!(u8),
        1 => from_unsigned!(u16),
        2 => from_unsigned!(u32),
        3 => from_unsigned!(u64),
        4 => from_unsigned!(u128),
        5 => from_unsigned!(usize),
        6 => from_signed!(i8),
        7 => from_signed!(i16),
        8 => from_signed!(i32),
        9 => from_signed!(i64),
        10 => from_signed!(i128),
        11 => from_signed!(isize),
        _ => {
            let b: bool = nd::any();
            let m = [b as Word];
            assert!(check_u(&UBig::from(b), &m));
            assert!(check_i(&IBig::from(b), POS, &m));
        }
    }
}

macro_rules! to_unsigned {
    ($t:ty, $s:expr, $a:expr, $n:expr) => {{
        let x = ibig($s, $a);
        let fits = $n <= NW && $s == POS && u128_of($a) <= <$t>::MAX as u128;
        match <$t>::try_from(&x) {
            Ok(v) => assert!(fits && v as u128 == u128_of($a)),
            Err(e) => assert!(!fits && e == ConversionError::OutOfBounds),
        }
        if $s == POS {
            let u = ubig($a);
            match <$t>::try_from(u) {
                Ok(v) => assert!(fits && v as u128 == u128_of($a)),
                Err(e) => assert!(!fits && e == ConversionError::OutOfBounds),
            }
        }
    }};
}
macro_rules! to_signed {
    ($t:ty, $s:expr, $a:expr, $n:expr) => {{
        let x = ibig($s, $a);
        let mag = u128_of($a);
        let fits = $n <= NW
            && if $s == POS { mag <= <$t>::MAX as u128 } else { mag <= (<$t>::MAX as u128) + 1 };
        match <$t>::try_from(&x) {
            Ok(v) => {
                assert!(fits);
                assert!(v.unsigned_abs() as u128 == mag && (v < 0) == ($s == NEG && mag != 0));
            }
            Err(e) => assert!(!fits && e == ConversionError::OutOfBounds),
        }
        if $s == POS {
            let u = ubig($a);
            match <$t>::try_from(&u) {
                Ok(v) => assert!(fits && v as u128 == mag),
                Err(e) => assert!(!fits && e == ConversionError::OutOfBounds),
            }
        }
    }};
}

/// TryFrom<UBig/IBig> for primitive: Ok(v) exactly when the value fits, and then v is the value
pub fn to_prim<const N: usize>(s: Sign, which: u8) {
    let a = any_mag::<N>();
    let s = if N == 0 { POS } else { s };
    match which {
        0 => to_unsigned!(u8, s, &a, N),
        1 => to_unsigned!(u16, s, &a, N),
        2 => to_unsigned!(u32, s, &a, N),
        3 => to_unsigned!(u64, s, &a, N),
        4 => to_unsigned!(u128, s, &a, N),
        5 => to_unsigned!(usize, s, &a, N),
        6 => to_signed!(i8, s, &a, N),
        7 => to_signed!(i16, s, &a, N),
        8 => to_signed!(i32, s, &a, N),
        9 => to_signed!(i64, s, &a, N),
        10 => to_signed!(i128, s, &a, N),
        _ => to_signed!(isize, s, &a, N),
    }
}

/// (top 127 bits with a sticky bit folded into the lsb, exponent) such that rounding
/// top*2^e to <= 64 significant bits equals rounding the full magnitude
fn top_sticky(a: &[Word]) -> (u128, i32) {
    let n = sig_len(a);
    if n <= NW {
        return (u128_of(a), 0);
    }
    // bit length
    let bl = n * WB - a[n - 1].leading_zeros() as usize;
    let sh = bl - 127; // > 0
    let mut top: u128 = 0;
    let mut sticky = false;
    let mut i = 0;
    while i < n {
        let lo = i * WB; // bit position of word i
        if lo + WB <= sh {
            sticky |= a[i] != 0;
        } else if lo >= sh {
            top |= (a[i] as u128) << (lo - sh);
        } else {
            let cut = sh - lo; // 1..WB-1 bits dropped from this word
            sticky |= a[i] & (((1 as Word) << cut) - 1) != 0;
            top |= (a[i] >> cut) as u128;
        }
        i += 1;
    }
    (top | sticky as u128, sh as i32)
}

fn bit_len(a: &[Word]) -> usize {
    let n = sig_len(a);
    if n == 0 {
        0
    } else {
        n * WB - a[n - 1].leading_zeros() as usize
    }
}

fn bs(neg: bool) -> BSign {
    if neg {
        BSign::Negative
    } else {
        BSign::Positive
    }
}

/// to_f32 / to_f64 of an integer of exactly N words. `top`: 0 = every word symbolic; otherwise the most
/// significant word is this literal (the bit length - and with it the shift that extracts the leading
/// bits - is then a constant; for >= 3 words a symbolic bit length makes CBMC run out of time)
pub fn to_float<const N: usize>(s: Sign, f64_: bool, top: Word) {
    let mut a = any_mag::<N>();
    if top != 0 && N > 0 {
        a[N - 1] = top;
    }
    let s = if N == 0 { POS } else { s };
    let neg = s == NEG;
    let (m, e) = top_sticky(&a);
    let x = ibig(s, &a);
    if f64_ {
        let (bits, exact, up) = encode_ref(m, e, 53, -1074, 11);
        let want = bits | ((neg as u64) << 63);
        let r = if neg { x.to_f64() } else { ubig(&a).to_f64() };
        match r {
            Approximation::Exact(v) => assert!(exact && (v.to_bits() == want || (N == 0 && v == 0.0))),
            Approximation::Inexact(v, es) => {
                assert!(!exact && v.to_bits() == want);
                assert!(es == bs(!(up != neg)));
            }
        }
    } else {
        let (bits, exact, up) = encode_ref(m, e, 24, -149, 8);
        let want = bits as u32 | ((neg as u32) << 31);
        let r = if neg { x.to_f32() } else { ubig(&a).to_f32() };
        match r {
            Approximation::Exact(v) => assert!(exact && (v.to_bits() == want || (N == 0 && v == 0.0))),
            Approximation::Inexact(v, es) => {
                assert!(!exact && v.to_bits() == want);
                assert!(es == bs(!(up != neg)));
            }
        }
    }
}

/// TryFrom<f32> for UBig / IBig with a concrete exponent field: succeeds only when the float is an
/// integer in range, and then gives exactly that integer
pub fn from_f32(elo: u32, ehi: u32, neg: bool, to_u: bool) {
    let m: u32 = nd::any();
    nd::assume(m < (1 << 23));
    // a single exponent field is passed as a LITERAL (the shift amounts inside the conversion are then constants)
    let expf: u32 = if elo == ehi {
        elo
    } else {
        let e: u32 = nd::any();
        nd::assume(e >= elo && e <= ehi);
        e
    };
    let bits = ((neg as u32) << 31) | (expf << 23) | m;
    let x = f32::from_bits(bits);
    // exact value: mant * 2^e
    let (mant, e): (u64, i32) = if expf == 0 { (m as u64, -149) } else { ((m | (1 << 23)) as u64, expf as i32 - 150) };
    let is_int = e >= 0 || mant & ((1u64 << (-e).min(63) as u32) - 1) == 0;
    let finite = expf != 0xff;
    let mut mag = [0 as Word; 6];
    if finite && is_int {
        // |value| as words: mant << e (e <= 104) or mant >> -e
        let v: u128 = if e >= 0 { (mant as u128) << (e as u32) } else { (mant >> ((-e).min(63) as u32)) as u128 };
        let w = words_of(v);
        let mut i = 0;
        while i < NW {
            mag[i] = w[i];
            i += 1;
        }
    }
    let zero = mant == 0;
    if to_u {
        match UBig::try_from(x) {
            Ok(u) => {
                assert!(finite && is_int && (!neg || zero), "accepted a value that is not a non-negative integer");
                assert!(check_u(&u, &mag));
            }
            Err(_) => assert!(!(finite && is_int) || (neg && !zero), "an integral non-negative finite float was refused"),
        }
    } else {
        match IBig::try_from(x) {
            Ok(i) => {
                assert!(finite && is_int, "accepted a value that is not an integer");
                assert!(check_i(&i, if neg && !zero { NEG } else { POS }, &mag));
            }
            Err(_) => assert!(!(finite && is_int), "an integral finite float was refused"),
        }
    }
}

/// the same for f64 with a LITERAL exponent field (11 bits) and every 52-bit mantissa
pub fn from_f64_exp(expf: u64, neg: bool, to_u: bool) {
    let m: u64 = nd::any();
    nd::assume(m < (1 << 52));
    let bits = ((neg as u64) << 63) | (expf << 52) | m;
    let x = f64::from_bits(bits);
    let (mant, e): (u64, i32) = if expf == 0 { (m, -1074) } else { (m | (1 << 52), expf as i32 - 1075) };
    let finite = expf != 0x7ff;
    // e is a literal here: only exponents with -63 <= e <= 64 are registered
    let is_int = e >= 0 || (-e <= 63 && mant & ((1u64 << (-e) as u32) - 1) == 0) || mant == 0;
    let mut mag = [0 as Word; 6];
    if finite && is_int {
        let v: u128 = if mant == 0 { 0 } else if e >= 0 { (mant as u128) << (e as u32) } else { (mant >> (-e) as u32) as u128 };
        let w = words_of(v);
        let mut i = 0;
        while i < NW {
            mag[i] = w[i];
            i += 1;
        }
    }
    let zero = mant == 0;
    if to_u {
        match UBig::try_from(x) {
            Ok(u) => {
                assert!(finite && is_int && (!neg || zero), "accepted a value that is not a non-negative integer");
                assert!(check_u(&u, &mag));
            }
            Err(_) => assert!(!(finite && is_int) || (neg && !zero), "an integral non-negative finite float was refused"),
        }
    } else {
        match IBig::try_from(x) {
            Ok(i) => {
                assert!(finite && is_int, "accepted a value that is not an integer");
                assert!(check_i(&i, if neg && !zero { NEG } else { POS }, &mag));
            }
            Err(_) => assert!(!(finite && is_int), "an integral finite float was refused"),
        }
    }
}

/// TryFrom<f32/f64> for UBig/IBig on LITERAL floats (no symbolic input; the symbolic versions are probes):
/// integers convert exactly, fractions / NaN / infinities are refused
pub fn from_float_literals() {
    let ok: [(f64, i64); 6] = [(0.0, 0), (1.0, 1), (-1.0, -1), (255.0, 255), (-4096.0, -4096), (1099511627776.0, 1 << 40)];
    let mut i = 0;
    while i < ok.len() {
        let (f, v) = ok[i];
        let x = IBig::try_from(f).unwrap();
        let (s, w) = x.as_sign_words();
        let m = if w.is_empty() { 0 } else { w[0] as i64 };
        assert!(w.len() <= 1 && m == v.abs() && (v == 0 || (s == NEG) == (v < 0)));
        let y = IBig::try_from(f as f32).unwrap();
        assert!(y == x);
        i += 1;
    }
    let bad: [f64; 7] = [0.5, 1.5, -1.5, 0.25, 3.999, f64::NAN, f64::INFINITY];
    let mut j = 0;
    while j < bad.len() {
        assert!(IBig::try_from(bad[j]).is_err(), "a float that is not an integer was converted");
        assert!(IBig::try_from(bad[j] as f32).is_err(), "a float that is not an integer was converted");
        if bad[j] > 0.0 {
            assert!(UBig::try_from(bad[j]).is_err(), "a float that is not an integer was converted");
        }
        j += 1;
    }
}

/// TryFrom<UBig/IBig> for f32/f64: Ok exactly when the integer is representable, value exact
pub fn int_to_float_exact<const N: usize>(s: Sign, f64_: bool, top: Word) {
    let mut a = any_mag::<N>();
    if top != 0 && N > 0 {
        a[N - 1] = top;
    }
    let s = if N == 0 { POS } else { s };
    let neg = s == NEG;
    let (m, e) = top_sticky(&a);
    if f64_ {
        let (bits, exact, _) = encode_ref(m, e, 53, -1074, 11);
        let r = if neg { f64::try_from(ibig(s, &a)) } else { f64::try_from(ubig(&a)) };
        match r {
            Ok(v) => assert!(exact && v.to_bits() == (bits | ((neg as u64) << 63))),
            // refusing is always permitted by the property; it is required when the value is not
            // representable, and we additionally insist that integers of at most 53 bits convert
            Err(er) => assert!(er == ConversionError::LossOfPrecision && bit_len(&a) > 53),
        }
    } else {
        let (bits, exact, _) = encode_ref(m, e, 24, -149, 8);
        let r = if neg { f32::try_from(ibig(s, &a)) } else { f32::try_from(ubig(&a)) };
        match r {
            Ok(v) => assert!(exact && v.to_bits() == (bits as u32 | ((neg as u32) << 31))),
            Err(er) => assert!(er == ConversionError::LossOfPrecision && bit_len(&a) > 24),
        }
    }
}
