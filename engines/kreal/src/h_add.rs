//! C01 (+C15 forms, C17 invariants, C19 word size): addition / subtraction.
use crate::nd;
use crate::oracle;
use crate::shapes::*;
use dashu_int::verif::add as k;
use dashu_int::{IBig, Sign, UBig, Word};

/// form: 0 val∘val, 1 ref∘ref, 2 val∘ref, 3 ref∘val, 4 op-assign
fn add_form_i(x: IBig, y: IBig, form: u8) -> IBig {
    match form {
        0 => x + y,
        1 => &x + &y,
        2 => x + &y,
        3 => &x + y,
        _ => {
            let mut x = x;
            x += y;
            x
        }
    }
}
fn sub_form_i(x: IBig, y: IBig, form: u8) -> IBig {
    match form {
        0 => x - y,
        1 => &x - &y,
        2 => x - &y,
        3 => &x - y,
        _ => {
            let mut x = x;
            x -= y;
            x
        }
    }
}
fn add_form_u(x: UBig, y: UBig, form: u8) -> UBig {
    match form {
        0 => x + y,
        1 => &x + &y,
        2 => x + &y,
        3 => &x + y,
        _ => {
            let mut x = x;
            x += y;
            x
        }
    }
}
fn sub_form_u(x: UBig, y: UBig, form: u8) -> UBig {
    match form {
        0 => x - y,
        1 => &x - &y,
        2 => x - &y,
        3 => &x - y,
        _ => {
            let mut x = x;
            x -= y;
            x
        }
    }
}

/// IBig (+|-) IBig, exact lengths NA, NB (M = max(NA,NB)+1), one sign pair, one form
pub fn addsub_ibig<const NA: usize, const NB: usize, const M: usize>(
    sa: Sign,
    sb: Sign,
    form: u8,
    do_sub: bool,
) {
    let a = any_mag::<NA>();
    let b = any_mag::<NB>();
    let mut m = [0 as Word; M];
    let x = ibig(sa, &a);
    let y = ibig(sb, &b);
    let sa = if NA == 0 { POS } else { sa };
    let sb = if NB == 0 { POS } else { sb };
    let (r, s) = if do_sub {
        (sub_form_i(x, y, form), oracle::signed_add(sa, &a, oracle::flip(sb), &b, &mut m))
    } else {
        (add_form_i(x, y, form), oracle::signed_add(sa, &a, sb, &b, &mut m))
    };
    assert!(check_i(&r, s, &m));
}

/// Witness twin of addsub_ibig: the interesting regions are reachable (one cover per harness)
pub fn addsub_ibig_cover<const NA: usize, const NB: usize, const M: usize>(
    sa: Sign,
    sb: Sign,
    which: u8,
) {
    let a = any_mag::<NA>();
    let b = any_mag::<NB>();
    let mut m = [0 as Word; M];
    let r = ibig(sa, &a) + ibig(sb, &b);
    let _ = oracle::signed_add(sa, &a, sb, &b, &mut m);
    let n = sig_len(&m);
    let (_, rl, _) = dashu_int::verif::ibig_shape(&r);
    match which {
        0 => cover!(rl == M && n == M, "carry into a new top word"),
        1 => cover!(rl == 0 && n == 0, "cancellation to zero"),
        _ => cover!(rl < NA && rl <= 2 && n > 0, "shrinks to inline"),
    }
}

/// UBig + UBig
pub fn add_ubig<const NA: usize, const NB: usize, const M: usize>(form: u8) {
    let a = any_mag::<NA>();
    let b = any_mag::<NB>();
    let mut m = [0 as Word; M];
    oracle::add(&a, &b, &mut m);
    let r = add_form_u(ubig(&a), ubig(&b), form);
    assert!(check_u(&r, &m));
}

/// UBig - UBig under a >= b: exact, no panic
pub fn sub_ubig<const NA: usize, const NB: usize>(form: u8) {
    let a = any_mag::<NA>();
    let b = any_mag::<NB>();
    nd::assume(oracle::cmp(&a, &b) != core::cmp::Ordering::Less);
    let mut m = [0 as Word; NA];
    oracle::sub(&a, &b, &mut m);
    let r = sub_form_u(ubig(&a), ubig(&b), form);
    assert!(check_u(&r, &m));
}

/// UBig - UBig under a < b must panic (documented); harness is #[kani::should_panic]
pub fn sub_ubig_underflow<const NA: usize, const NB: usize>(form: u8) {
    let a = any_mag::<NA>();
    let b = any_mag::<NB>();
    nd::assume(oracle::cmp(&a, &b) == core::cmp::Ordering::Less);
    let r = sub_form_u(ubig(&a), ubig(&b), form);
    core::mem::forget(r);
    cover!(true, "returned");
}

/// mixed UBig/IBig forms equal the IBig/IBig result (C15, C09-style "convert first")
pub fn addsub_mixed<const NA: usize, const NB: usize, const M: usize>(sb: Sign, which: u8) {
    let a = any_mag::<NA>();
    let b = any_mag::<NB>();
    let mut m = [0 as Word; M];
    let sb = if NB == 0 { POS } else { sb };
    let (r, s) = match which {
        0 => (ubig(&a) + ibig(sb, &b), oracle::signed_add(POS, &a, sb, &b, &mut m)),
        1 => (ibig(sb, &b) + ubig(&a), oracle::signed_add(POS, &a, sb, &b, &mut m)),
        2 => (ubig(&a) - ibig(sb, &b), oracle::signed_add(POS, &a, oracle::flip(sb), &b, &mut m)),
        3 => (ibig(sb, &b) - ubig(&a), oracle::signed_add(sb, &b, NEG, &a, &mut m)),
        4 => (&ubig(&a) + &ibig(sb, &b), oracle::signed_add(POS, &a, sb, &b, &mut m)),
        5 => (&ibig(sb, &b) - &ubig(&a), oracle::signed_add(sb, &b, NEG, &a, &mut m)),
        6 => {
            let mut x = ibig(sb, &b);
            x += ubig(&a);
            (x, oracle::signed_add(POS, &a, sb, &b, &mut m))
        }
        _ => {
            let mut x = ibig(sb, &b);
            x -= ubig(&a);
            (x, oracle::signed_add(sb, &b, NEG, &a, &mut m))
        }
    };
    assert!(check_i(&r, s, &m));
}

// ---------------------------------------------------------------- kernels (regime K)

/// add::add_in_place / sub_in_place on [Word; N] with a symbolic rhs length
pub fn k_add_in_place<const N: usize>(do_sub: bool) {
    let mut a: Box<[Word; N]> = Box::new(nd::any()); // heap: see DESIGN 1(d) (symbolic-length memcpy into stack arrays)
    let b: [Word; N] = nd::any();
    let lb: usize = nd::any();
    nd::assume(lb <= N);
    let a0: [Word; N] = *a;
    let mut m = [0 as Word; N];
    if do_sub {
        let borrow = k::sub_in_place(&mut a[..], &b[..lb]);
        let ob = oracle::sub(&a0, &b[..lb], &mut m);
        assert!(borrow == ob);
    } else {
        let carry = k::add_in_place(&mut a[..], &b[..lb]);
        let oc = oracle::add(&a0, &b[..lb], &mut m);
        assert!(carry == oc);
    }
    let mut i = 0;
    while i < N {
        assert!(a[i] == m[i]);
        i += 1;
    }
}

/// add_same_len / sub_same_len / sub_same_len_in_place_swap
pub fn k_same_len<const N: usize>(which: u8) {
    let mut a: Box<[Word; N]> = Box::new(nd::any()); // heap: see DESIGN 1(d) (symbolic-length memcpy into stack arrays)
    let mut b: Box<[Word; N]> = Box::new(nd::any());
    let (a0, b0): ([Word; N], [Word; N]) = (*a, *b);
    let mut m = [0 as Word; N];
    let (flag, oflag, res) = match which {
        0 => (k::add_same_len_in_place(&mut a[..], &b[..]), oracle::add(&a0, &b0, &mut m), a),
        1 => (k::sub_same_len_in_place(&mut a[..], &b[..]), oracle::sub(&a0, &b0, &mut m), a),
        _ => (k::sub_same_len_in_place_swap(&a[..], &mut b[..]), oracle::sub(&a0, &b0, &mut m), b),
    };
    assert!(flag == oflag);
    let mut i = 0;
    while i < N {
        assert!(res[i] == m[i]);
        i += 1;
    }
}

/// add/sub of one, a word, a dword
pub fn k_small<const N: usize>(which: u8) {
    let mut a: Box<[Word; N]> = Box::new(nd::any()); // heap: see DESIGN 1(d) (symbolic-length memcpy into stack arrays)
    let a0: [Word; N] = *a;
    let w: Word = nd::any();
    let w2: Word = nd::any();
    let mut m = [0 as Word; N];
    let (flag, oflag) = match which {
        0 => (k::add_one_in_place(&mut a[..]), oracle::add(&a0, &[1], &mut m)),
        1 => (k::sub_one_in_place(&mut a[..]), oracle::sub(&a0, &[1], &mut m)),
        2 => (k::add_word_in_place(&mut a[..], w), oracle::add(&a0, &[w], &mut m)),
        3 => (k::sub_word_in_place(&mut a[..], w), oracle::sub(&a0, &[w], &mut m)),
        4 => (
            k::add_dword_in_place(&mut a[..], dashu_int::verif::primitive::double_word(w, w2)),
            oracle::add(&a0, &[w, w2], &mut m),
        ),
        _ => (
            k::sub_dword_in_place(&mut a[..], dashu_int::verif::primitive::double_word(w, w2)),
            oracle::sub(&a0, &[w, w2], &mut m),
        ),
    };
    assert!(flag == oflag);
    let mut i = 0;
    while i < N {
        assert!(a[i] == m[i]);
        i += 1;
    }
}

/// sub_in_place_with_sign: lhs = |lhs - rhs|, returns the sign; lhs.len() >= rhs.len()
pub fn k_sub_with_sign<const N: usize>() {
    let mut a: Box<[Word; N]> = Box::new(nd::any()); // heap: see DESIGN 1(d) (symbolic-length memcpy into stack arrays)
    let b: [Word; N] = nd::any();
    let lb: usize = nd::any();
    nd::assume(lb <= N);
    let a0: [Word; N] = *a;
    let mut m = [0 as Word; N];
    let s = k::sub_in_place_with_sign(&mut a[..], &b[..lb]);
    let os = oracle::signed_add(POS, &a0, NEG, &b[..lb], &mut m);
    let mut i = 0;
    while i < N {
        assert!(a[i] == m[i]);
        i += 1;
    }
    assert!(oracle::is_zero(&m) || s == os);
}

/// add_signed_in_place: words += sign*rhs in two's complement, returns the signed overflow (-1,0,1)
pub fn k_add_signed<const N: usize>(sign: Sign) {
    let mut a: Box<[Word; N]> = Box::new(nd::any()); // heap: see DESIGN 1(d) (symbolic-length memcpy into stack arrays)
    let b: [Word; N] = nd::any();
    let lb: usize = nd::any();
    nd::assume(lb <= N);
    let a0: [Word; N] = *a;
    let mut m = [0 as Word; N];
    let ov = k::add_signed_in_place(&mut a[..], sign, &b[..lb]);
    let flag = match sign {
        Sign::Positive => oracle::add(&a0, &b[..lb], &mut m),
        Sign::Negative => oracle::sub(&a0, &b[..lb], &mut m),
    };
    let mut i = 0;
    while i < N {
        assert!(a[i] == m[i]);
        i += 1;
    }
    let expect = match (sign, flag) {
        (_, false) => 0,
        (Sign::Positive, true) => 1,
        (Sign::Negative, true) => -1,
    };
    assert!(ov == expect);
}
