//! C05 (+C17, C15 clone): ==, Ord, Hash follow the value; canonical-form producers; clone / clone_from.
use crate::nd;
use crate::oracle;
use crate::shapes::*;
use core::cmp::Ordering;
use core::hash::{Hash, Hasher};
use dashu_base::{Abs, AbsEq, AbsOrd, Signed, UnsignedAbs};
use dashu_int::verif;
use dashu_int::{IBig, Sign, UBig, Word};

fn signed_cmp(sa: Sign, a: &[Word], sb: Sign, b: &[Word]) -> Ordering {
    let za = oracle::is_zero(a);
    let zb = oracle::is_zero(b);
    let sa = if za { POS } else { sa };
    let sb = if zb { POS } else { sb };
    match (sa, sb) {
        (Sign::Positive, Sign::Positive) => oracle::cmp(a, b),
        (Sign::Positive, Sign::Negative) => Ordering::Greater,
        (Sign::Negative, Sign::Positive) => Ordering::Less,
        (Sign::Negative, Sign::Negative) => oracle::cmp(b, a),
    }
}

/// cap variant: 0 default, 1 tight (=len), 2 max compact
fn cap_of(len: usize, v: u8) -> usize {
    if len < 3 {
        0
    } else {
        match v {
            0 => 0,
            1 => len,
            _ => max_compact_capacity(len),
        }
    }
}

/// IBig cmp / == / abs_cmp / abs_eq on two arbitrary canonical values (any capacity variant)
pub fn cmp_i<const NA: usize, const NB: usize>(sa: Sign, sb: Sign, ca: u8, cb: u8) {
    let a = any_mag::<NA>();
    let b = any_mag::<NB>();
    let sa = if NA == 0 { POS } else { sa };
    let sb = if NB == 0 { POS } else { sb };
    let x = verif::ibig_from_shape(sa, &a, cap_of(NA, ca));
    let y = verif::ibig_from_shape(sb, &b, cap_of(NB, cb));
    let want = signed_cmp(sa, &a, sb, &b);
    assert!(x.cmp(&y) == want);
    assert!(x.partial_cmp(&y) == Some(want));
    assert!((x == y) == (want == Ordering::Equal));
    assert!((x < y) == (want == Ordering::Less));
    assert!(x.abs_cmp(&y) == oracle::cmp(&a, &b));
    assert!(x.abs_eq(&y) == (oracle::cmp(&a, &b) == Ordering::Equal));
}

pub fn cmp_u<const NA: usize, const NB: usize>(ca: u8, cb: u8) {
    let a = any_mag::<NA>();
    let b = any_mag::<NB>();
    let x = verif::ubig_from_shape(&a, cap_of(NA, ca));
    let y = verif::ubig_from_shape(&b, cap_of(NB, cb));
    let want = oracle::cmp(&a, &b);
    assert!(x.cmp(&y) == want);
    assert!((x == y) == (want == Ordering::Equal));
    assert!(x.abs_cmp(&y) == want);
    // mixed UBig / IBig magnitude comparisons
    let yi = verif::ibig_from_shape(if NB == 0 { POS } else { NEG }, &b, cap_of(NB, cb));
    assert!(x.abs_cmp(&yi) == want);
    assert!(yi.abs_cmp(&x) == want.reverse());
    assert!(x.abs_eq(&yi) == (want == Ordering::Equal));
}

/// recording hasher: the exact byte stream fed by Hash
pub struct Rec {
    pub buf: [u8; 96],
    pub n: usize,
}
impl Hasher for Rec {
    fn finish(&self) -> u64 {
        0
    }
    fn write(&mut self, bytes: &[u8]) {
        let mut i = 0;
        while i < bytes.len() {
            if self.n < 96 {
                self.buf[self.n] = bytes[i];
            }
            self.n += 1;
            i += 1;
        }
    }
}
fn rec_eq(p: &Rec, q: &Rec) -> bool {
    if p.n != q.n {
        return false;
    }
    let mut i = 0;
    while i < p.n && i < 96 {
        if p.buf[i] != q.buf[i] {
            return false;
        }
        i += 1;
    }
    true
}

/// equal values (whatever their capacity) feed identical byte streams to the hasher
pub fn hash_i<const N: usize>(s: Sign, ca: u8, cb: u8) {
    let a = any_mag::<N>();
    let b = any_mag::<N>();
    let s = if N == 0 { POS } else { s };
    let x = verif::ibig_from_shape(s, &a, cap_of(N, ca));
    let y = verif::ibig_from_shape(s, &b, cap_of(N, cb));
    let mut hx = Rec { buf: [0; 96], n: 0 };
    let mut hy = Rec { buf: [0; 96], n: 0 };
    x.hash(&mut hx);
    y.hash(&mut hy);
    let same = oracle::cmp(&a, &b) == Ordering::Equal;
    if same {
        assert!(rec_eq(&hx, &hy));
    }
    // and the stream determines the value (different values give different streams)
    if !same {
        assert!(!rec_eq(&hx, &hy));
    }
    assert!(hx.n <= 96);
}

pub fn hash_u_vs_i<const N: usize>() {
    // a non-negative IBig and the UBig of the same value hash identically
    let a = any_mag::<N>();
    let x = ubig(&a);
    let y = ibig(POS, &a);
    let mut hx = Rec { buf: [0; 96], n: 0 };
    let mut hy = Rec { buf: [0; 96], n: 0 };
    x.hash(&mut hx);
    y.hash(&mut hy);
    assert!(rec_eq(&hx, &hy));
}

// ------------------------------------------------------------------ canonical-form producers

/// from_words with arbitrary (also leading zero) words
pub fn from_words<const N: usize>() {
    let a: [Word; N] = nd::any();
    let x = UBig::from_words(&a);
    assert!(check_u(&x, &a));
}

/// clone: equal, canonical, independent storage
pub fn clone_i<const N: usize>(s: Sign, c: u8) {
    let a = any_mag::<N>();
    let s = if N == 0 { POS } else { s };
    let x = verif::ibig_from_shape(s, &a, cap_of(N, c));
    let y = x.clone();
    assert!(check_i(&y, s, &a));
    assert!(check_i(&x, s, &a));
    if N >= 3 {
        assert!(x.as_sign_words().1.as_ptr() != y.as_sign_words().1.as_ptr());
    }
    drop(x);
    assert!(check_i(&y, s, &a));
}

/// clone_from onto any previous value
pub fn clone_from_i<const NA: usize, const NB: usize>(sa: Sign, sb: Sign, ca: u8, cb: u8) {
    let a = any_mag::<NA>();
    let b = any_mag::<NB>();
    let sa = if NA == 0 { POS } else { sa };
    let sb = if NB == 0 { POS } else { sb };
    let mut x = verif::ibig_from_shape(sa, &a, cap_of(NA, ca));
    let y = verif::ibig_from_shape(sb, &b, cap_of(NB, cb));
    x.clone_from(&y);
    assert!(check_i(&x, sb, &b));
    assert!(check_i(&y, sb, &b));
    if NB >= 3 {
        assert!(x.as_sign_words().1.as_ptr() != y.as_sign_words().1.as_ptr());
    }
    drop(y);
    assert!(check_i(&x, sb, &b));
}

pub fn clone_from_u<const NA: usize, const NB: usize>(ca: u8, cb: u8) {
    let a = any_mag::<NA>();
    let b = any_mag::<NB>();
    let mut x = verif::ubig_from_shape(&a, cap_of(NA, ca));
    let y = verif::ubig_from_shape(&b, cap_of(NB, cb));
    x.clone_from(&y);
    assert!(check_u(&x, &b));
    drop(y);
    assert!(check_u(&x, &b));
}

/// sign plumbing: from_parts / into_parts / neg / abs / unsigned_abs / signum / From<UBig>
pub fn parts_i<const N: usize>(s: Sign, which: u8) {
    let a = any_mag::<N>();
    let s0 = if N == 0 { POS } else { s };
    match which {
        0 => {
            let x = IBig::from_parts(s, ubig(&a));
            assert!(check_i(&x, s0, &a));
        }
        1 => {
            let (rs, m) = ibig(s, &a).into_parts();
            assert!(check_u(&m, &a));
            assert!(rs == s0);
        }
        2 => {
            let x = -ibig(s, &a);
            assert!(check_i(&x, oracle::flip(s0), &a));
        }
        3 => {
            let x = -&ibig(s, &a);
            assert!(check_i(&x, oracle::flip(s0), &a));
        }
        4 => {
            let x = ibig(s, &a).abs();
            assert!(check_i(&x, POS, &a));
        }
        5 => {
            let x = ibig(s, &a).unsigned_abs();
            assert!(check_u(&x, &a));
        }
        6 => {
            let x = (&ibig(s, &a)).unsigned_abs();
            assert!(check_u(&x, &a));
        }
        7 => {
            let x = ibig(s, &a).signum();
            let one = [1 as Word];
            if N == 0 {
                assert!(check_i(&x, POS, &[]));
            } else {
                assert!(check_i(&x, s0, &one));
            }
        }
        8 => {
            let x = IBig::from(ubig(&a));
            assert!(check_i(&x, POS, &a));
        }
        9 => {
            let x = ibig(s, &a);
            assert!(x.sign() == s0);
            assert!(x.is_zero() == (N == 0));
            assert!(x.is_one() == (N == 1 && a[0] == 1 && s0 == POS));
        }
        _ => {
            let x = ibig(s, &a) * oracle::flip(POS);
            assert!(check_i(&x, oracle::flip(s0), &a));
        }
    }
}

/// TryFrom<IBig> for UBig: refuses negatives, exact otherwise
pub fn try_u_from_i<const N: usize>(s: Sign) {
    let a = any_mag::<N>();
    let s0 = if N == 0 { POS } else { s };
    match UBig::try_from(ibig(s, &a)) {
        Ok(u) => {
            assert!(s0 == POS);
            assert!(check_u(&u, &a));
        }
        Err(_) => assert!(s0 == NEG),
    }
}

static SW3: [Word; 3] = [5, 0, 7];
static SW2: [Word; 2] = [5, 9];
static SW1: [Word; 1] = [5];
static SW0: [Word; 0] = [];
/// from_static_words: value, canonical layout, usable by readers and clone (never dropped/mutated)
pub fn static_words() {
    let x3 = unsafe { UBig::from_static_words(&SW3) };
    let x2 = unsafe { UBig::from_static_words(&SW2) };
    let x1 = unsafe { UBig::from_static_words(&SW1) };
    let x0 = unsafe { UBig::from_static_words(&SW0) };
    assert!(check_u(&x3, &SW3) && check_u(&x2, &SW2) && check_u(&x1, &SW1) && check_u(&x0, &SW0));
    let c = x3.clone();
    assert!(check_u(&c, &SW3));
    assert!(c == x3 && x3 > x2 && x2 > x1 && x1 > x0);
    core::mem::forget(x3);
}
