//! C09: bit operations follow infinite two's complement semantics.
use crate::nd;
use crate::oracle;
use crate::shapes::*;
use dashu_base::BitTest;
use dashu_int::ops::PowerOfTwo;
use dashu_int::verif::shift as ks;
use dashu_int::{IBig, Sign, UBig, Word};

const WB: usize = Word::BITS as usize;

/// word i of the infinite two's complement number t (sign extended)
fn tw(t: &[Word], i: usize) -> Word {
    if i < t.len() {
        t[i]
    } else if t[t.len() - 1] >> (WB - 1) != 0 {
        Word::MAX
    } else {
        0
    }
}

/// arithmetic shift right of a two's complement array by k bits
fn sar(t: &[Word], k: usize, out: &mut [Word]) {
    let kw = k / WB;
    let kb = k % WB;
    let mut i = 0;
    while i < out.len() {
        let lo = tw(t, i + kw);
        let hi = tw(t, i + kw + 1);
        out[i] = if kb == 0 { lo } else { (lo >> kb) | (hi << (WB - kb)) };
        i += 1;
    }
}

/// logical shift left of a magnitude by k bits into out (out long enough)
fn shl_mag(a: &[Word], k: usize, out: &mut [Word]) {
    let kw = k / WB;
    let kb = k % WB;
    let mut i = 0;
    while i < out.len() {
        let lo = if i >= kw && i - kw < a.len() { a[i - kw] } else { 0 };
        let lo1 = if i >= kw + 1 && i - kw - 1 < a.len() { a[i - kw - 1] } else { 0 };
        out[i] = if kb == 0 { lo } else { (lo << kb) | (lo1 >> (WB - kb)) };
        i += 1;
    }
}

fn bit_of(t: &[Word], n: usize) -> bool {
    (tw(t, n / WB) >> (n % WB)) & 1 == 1
}

// ------------------------------------------------------------------------------ kernels

pub fn k_shl<const N: usize>() {
    let mut a: Box<[Word; N]> = Box::new(nd::any());
    let a0: [Word; N] = *a;
    let s: u32 = nd::any();
    nd::assume((s as usize) < WB);
    let carry = ks::shl_in_place(&mut a[..], s);
    let mut m = [0 as Word; 8];
    shl_mag(&a0, s as usize, &mut m[..N + 1]);
    let mut i = 0;
    while i < N {
        assert!(a[i] == m[i]);
        i += 1;
    }
    assert!(carry == m[N]);
}

pub fn k_shr<const N: usize>() {
    let mut a: Box<[Word; N]> = Box::new(nd::any());
    let a0: [Word; N] = *a;
    let s: u32 = nd::any();
    nd::assume((s as usize) <= WB);
    let rem = ks::shr_in_place(&mut a[..], s);
    // view [0, a0...] shifted right by s: the low word receives the shifted-out bits
    let mut ext = [0 as Word; 8];
    let mut i = 0;
    while i < N {
        ext[i + 1] = a0[i];
        i += 1;
    }
    let mut m = [0 as Word; 8];
    sar(&ext[..N + 2], s as usize, &mut m[..N + 1]);
    i = 0;
    while i < N {
        assert!(a[i] == m[i + 1]);
        i += 1;
    }
    assert!(rem == m[0]);
}

// ------------------------------------------------------------------------------ UBig / IBig binary bit ops

fn bitop_words(op: u8, x: Word, y: Word) -> Word {
    match op {
        0 => x & y,
        1 => x | y,
        _ => x ^ y,
    }
}

pub fn bitop_u<const NA: usize, const NB: usize, const M: usize>(op: u8, form: u8) {
    let a = any_mag::<NA>();
    let b = any_mag::<NB>();
    let mut m = [0 as Word; M];
    let mut i = 0;
    while i < M {
        let x = if i < NA { a[i] } else { 0 };
        let y = if i < NB { b[i] } else { 0 };
        m[i] = bitop_words(op, x, y);
        i += 1;
    }
    let (x, y) = (ubig(&a), ubig(&b));
    let r = match (op, form) {
        (0, 0) => x & y,
        (0, 1) => &x & &y,
        (0, 2) => x & &y,
        (0, 3) => &x & y,
        (0, _) => {
            let mut x = x;
            x &= y;
            x
        }
        (1, 0) => x | y,
        (1, 1) => &x | &y,
        (1, 2) => x | &y,
        (1, 3) => &x | y,
        (1, _) => {
            let mut x = x;
            x |= y;
            x
        }
        (_, 0) => x ^ y,
        (_, 1) => &x ^ &y,
        (_, 2) => x ^ &y,
        (_, 3) => &x ^ y,
        (_, _) => {
            let mut x = x;
            x ^= y;
            x
        }
    };
    assert!(check_u(&r, &m));
}

/// IBig op IBig vs two's complement over M = max(NA,NB)+1 words
pub fn bitop_i<const NA: usize, const NB: usize, const M: usize>(sa: Sign, sb: Sign, op: u8, form: u8, clear_top: bool) {
    let a = any_mag::<NA>();
    let b = any_mag::<NB>();
    if clear_top {
        // inline-only regime: keep the result within two words (|x|,|y| < 2^(2W-1))
        if NA == 2 {
            nd::assume(a[1] >> (WB - 1) == 0);
        }
        if NB == 2 {
            nd::assume(b[1] >> (WB - 1) == 0);
        }
    }
    let sa = if NA == 0 { POS } else { sa };
    let sb = if NB == 0 { POS } else { sb };
    let mut ta = [0 as Word; M];
    let mut tb = [0 as Word; M];
    oracle::to_twos(sa, &a, &mut ta);
    oracle::to_twos(sb, &b, &mut tb);
    let mut tr = [0 as Word; M];
    let mut i = 0;
    while i < M {
        tr[i] = bitop_words(op, ta[i], tb[i]);
        i += 1;
    }
    let mut m = [0 as Word; M];
    let s = oracle::from_twos(&tr, &mut m);
    let (x, y) = (ibig(sa, &a), ibig(sb, &b));
    let r = match (op, form) {
        (0, 0) => x & y,
        (0, 1) => &x & &y,
        (0, 2) => x & &y,
        (0, 3) => &x & y,
        (0, _) => {
            let mut x = x;
            x &= y;
            x
        }
        (1, 0) => x | y,
        (1, 1) => &x | &y,
        (1, 2) => x | &y,
        (1, 3) => &x | y,
        (1, _) => {
            let mut x = x;
            x |= y;
            x
        }
        (_, 0) => x ^ y,
        (_, 1) => &x ^ &y,
        (_, 2) => x ^ &y,
        (_, 3) => &x ^ y,
        (_, _) => {
            let mut x = x;
            x ^= y;
            x
        }
    };
    assert!(check_i(&r, s, &m));
}

/// !x == -x - 1
pub fn not_i<const N: usize, const M: usize>(s: Sign, by_ref: bool, clear_top: bool) {
    let a = any_mag::<N>();
    if clear_top && N == 2 {
        nd::assume(a[1] >> (WB - 1) == 0);
    }
    let s = if N == 0 { POS } else { s };
    let mut t = [0 as Word; M];
    oracle::to_twos(s, &a, &mut t);
    let mut i = 0;
    while i < M {
        t[i] = !t[i];
        i += 1;
    }
    let mut m = [0 as Word; M];
    let rs = oracle::from_twos(&t, &mut m);
    let x = ibig(s, &a);
    let r = if by_ref { !&x } else { !x };
    assert!(check_i(&r, rs, &m));
}

// ------------------------------------------------------------------------------ shifts (amount concrete per harness)

/// UBig << k, M >= N + k/W + 1
pub fn shl_u<const N: usize, const M: usize>(k: usize, form: u8) {
    let a = any_mag::<N>();
    let mut m = [0 as Word; M];
    shl_mag(&a, k, &mut m);
    let x = ubig(&a);
    let r = match form {
        0 => x << k,
        1 => &x << k,
        _ => {
            let mut x = x;
            x <<= k;
            x
        }
    };
    assert!(check_u(&r, &m));
}

pub fn shr_u<const N: usize, const M: usize>(k: usize, form: u8) {
    let a = any_mag::<N>();
    let mut t = [0 as Word; M]; // M = N+1: top word zero => non-negative
    let mut i = 0;
    while i < N {
        t[i] = a[i];
        i += 1;
    }
    let mut m = [0 as Word; M];
    sar(&t, k, &mut m);
    let x = ubig(&a);
    let r = match form {
        0 => x >> k,
        1 => &x >> k,
        _ => {
            let mut x = x;
            x >>= k;
            x
        }
    };
    assert!(check_u(&r, &m));
}

/// IBig >> k is floor division by 2^k (arithmetic shift), M = N+1
pub fn shr_i<const N: usize, const M: usize>(s: Sign, k: usize, form: u8) {
    let a = any_mag::<N>();
    let s = if N == 0 { POS } else { s };
    let mut t = [0 as Word; M];
    oracle::to_twos(s, &a, &mut t);
    let mut tr = [0 as Word; M];
    sar(&t, k, &mut tr);
    let mut m = [0 as Word; M];
    let rs = oracle::from_twos(&tr, &mut m);
    let x = ibig(s, &a);
    let r = match form {
        0 => x >> k,
        1 => &x >> k,
        _ => {
            let mut x = x;
            x >>= k;
            x
        }
    };
    assert!(check_i(&r, rs, &m));
}

pub fn shl_i<const N: usize, const M: usize>(s: Sign, k: usize, form: u8) {
    let a = any_mag::<N>();
    let s = if N == 0 { POS } else { s };
    let mut m = [0 as Word; M];
    shl_mag(&a, k, &mut m);
    let x = ibig(s, &a);
    let r = match form {
        0 => x << k,
        1 => &x << k,
        _ => {
            let mut x = x;
            x <<= k;
            x
        }
    };
    assert!(check_i(&r, s, &m));
}

// ------------------------------------------------------------------------------ non-allocating queries (n symbolic)

pub fn query_u<const N: usize, const M: usize>(which: u8) {
    let a = any_mag::<N>();
    let x = ubig(&a);
    let mut t = [0 as Word; M]; // M = N+1, non-negative
    let mut i = 0;
    while i < N {
        t[i] = a[i];
        i += 1;
    }
    match which {
        0 => {
            let n: usize = nd::any();
            nd::assume(n < (M + 2) * WB);
            assert!(x.bit(n) == bit_of(&t, n));
        }
        1 => {
            // bit_len: position of the highest set bit + 1
            let bl = x.bit_len();
            if N == 0 {
                assert!(bl == 0);
            } else {
                assert!(bl >= 1 && bl <= N * WB && bit_of(&t, bl - 1));
                assert!(bl > (N - 1) * WB);
                assert!(a[N - 1] >> ((bl - 1) % WB) == 1);
            }
        }
        2 => match x.trailing_zeros() {
            None => assert!(N == 0),
            Some(z) => {
                assert!(N > 0 && z < N * WB && bit_of(&t, z));
                let j: usize = nd::any();
                nd::assume(j < z);
                assert!(!bit_of(&t, j));
            }
        },
        3 => {
            let o = x.trailing_ones().unwrap();
            assert!(o <= N * WB && !bit_of(&t, o));
            let j: usize = nd::any();
            nd::assume(j < o);
            assert!(bit_of(&t, j));
        }
        4 => {
            let mut c = 0usize;
            let mut i = 0;
            while i < N {
                c += a[i].count_ones() as usize;
                i += 1;
            }
            assert!(x.count_ones() == c);
            match x.count_zeros() {
                None => assert!(N == 0),
                Some(z) => assert!(N > 0 && z + c == x.bit_len()),
            }
        }
        _ => {
            // is_power_of_two <=> exactly one bit set
            let mut c = 0usize;
            let mut i = 0;
            while i < N {
                c += a[i].count_ones() as usize;
                i += 1;
            }
            assert!(x.is_power_of_two() == (c == 1));
        }
    }
}

pub fn query_i<const N: usize, const M: usize>(s: Sign, which: u8) {
    let a = any_mag::<N>();
    let s = if N == 0 { POS } else { s };
    let x = ibig(s, &a);
    let mut t = [0 as Word; M];
    oracle::to_twos(s, &a, &mut t);
    match which {
        0 => {
            let n: usize = nd::any();
            nd::assume(n < (M + 2) * WB);
            assert!(x.bit(n) == bit_of(&t, n));
        }
        2 => match x.trailing_zeros() {
            None => assert!(N == 0),
            Some(z) => {
                assert!(N > 0 && z < N * WB && bit_of(&t, z));
                let j: usize = nd::any();
                nd::assume(j < z);
                assert!(!bit_of(&t, j));
            }
        },
        _ => match x.trailing_ones() {
            None => {
                // only -1 has infinitely many trailing ones
                assert!(s == NEG && N == 1 && a[0] == 1);
            }
            Some(o) => {
                assert!(!(s == NEG && N == 1 && a[0] == 1));
                assert!(o <= N * WB + 1 && !bit_of(&t, o));
                let j: usize = nd::any();
                nd::assume(j < o);
                assert!(bit_of(&t, j));
            }
        },
    }
}

// ------------------------------------------------------------------------------ single-bit updates (index concrete)

pub fn setclr_u<const N: usize, const M: usize>(n: usize, clear: bool) {
    let a = any_mag::<N>();
    let mut m = [0 as Word; M]; // M > max(N, n/W)
    let mut i = 0;
    while i < N {
        m[i] = a[i];
        i += 1;
    }
    if clear {
        m[n / WB] &= !(1 << (n % WB));
    } else {
        m[n / WB] |= 1 << (n % WB);
    }
    let mut x = ubig(&a);
    if clear {
        x.clear_bit(n);
    } else {
        x.set_bit(n);
    }
    assert!(check_u(&x, &m));
}

/// split_bits(n) = (x mod 2^n, x >> n); clear_high_bits(n) = x mod 2^n
pub fn split_u<const N: usize, const M: usize>(n: usize, which: u8) {
    let a = any_mag::<N>();
    let mut t = [0 as Word; M]; // M = N + 1
    let mut i = 0;
    while i < N {
        t[i] = a[i];
        i += 1;
    }
    let mut hi = [0 as Word; M];
    sar(&t, n, &mut hi);
    let mut lo = [0 as Word; M];
    i = 0;
    while i < M {
        lo[i] = if (i + 1) * WB <= n {
            t[i]
        } else if i * WB >= n {
            0
        } else {
            t[i] & ((1 << (n % WB)) - 1)
        };
        i += 1;
    }
    let x = ubig(&a);
    if which == 0 {
        let (l, h) = x.split_bits(n);
        assert!(check_u(&l, &lo));
        assert!(check_u(&h, &hi));
    } else {
        let mut x = x;
        x.clear_high_bits(n);
        assert!(check_u(&x, &lo));
    }
}

pub fn next_pow2_u<const N: usize, const M: usize>() {
    let a = any_mag::<N>();
    let x = ubig(&a);
    let ispow = x.is_power_of_two();
    let bl = x.bit_len();
    let r = x.next_power_of_two();
    // expected: 2^(bl-1) if already a power of two, else 2^bl (0 -> 1)
    let e = if N == 0 {
        0
    } else if ispow {
        bl - 1
    } else {
        bl
    };
    let mut m = [0 as Word; M]; // M = N + 1
    m[e / WB] = 1 << (e % WB);
    assert!(check_u(&r, &m));
}

/// UBig::ones(n) == 2^n - 1, canonical
pub fn ones_u<const M: usize>(n: usize) {
    let r = UBig::ones(n);
    let mut m = [0 as Word; M]; // M = n/W + 1
    let mut i = 0;
    while i < M {
        m[i] = if (i + 1) * WB <= n {
            Word::MAX
        } else if i * WB >= n {
            0
        } else {
            ((1 as Word) << (n % WB)) - 1
        };
        i += 1;
    }
    assert!(check_u(&r, &m));
}
