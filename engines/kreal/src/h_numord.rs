//! C14: cross-type comparison (NumOrd) and hashing (NumHash) between big integers and primitive integers.
use crate::h_cmp::Rec;
use crate::nd;
use crate::oracle;
use crate::shapes::*;
use core::cmp::Ordering;
use dashu_int::{IBig, Sign, UBig, Word};
use num_order::{NumHash, NumOrd};

const WB: usize = Word::BITS as usize;
const NW: usize = 128 / WB;

fn words_of(v: u128) -> [Word; NW] {
    let mut a = [0 as Word; NW];
    let mut i = 0;
    while i < NW {
        a[i] = (v >> (i * WB)) as Word;
        i += 1;
    }
    a
}

fn signed_cmp(sa: Sign, a: &[Word], sb: Sign, b: &[Word]) -> Ordering {
    let sa = if oracle::is_zero(a) { POS } else { sa };
    let sb = if oracle::is_zero(b) { POS } else { sb };
    match (sa, sb) {
        (Sign::Positive, Sign::Positive) => oracle::cmp(a, b),
        (Sign::Positive, Sign::Negative) => Ordering::Greater,
        (Sign::Negative, Sign::Positive) => Ordering::Less,
        (Sign::Negative, Sign::Negative) => oracle::cmp(b, a),
    }
}

macro_rules! ord_unsigned {
    ($t:ty, $s:expr, $a:expr) => {{
        let v: $t = nd::any();
        let w = words_of(v as u128);
        let want = signed_cmp($s, $a, POS, &w);
        let x = ibig($s, $a);
        assert!(x.num_partial_cmp(&v) == Some(want));
        assert!(v.num_partial_cmp(&x) == Some(want.reverse()));
        if $s == POS {
            let u = ubig($a);
            assert!(u.num_partial_cmp(&v) == Some(want));
            assert!(v.num_partial_cmp(&u) == Some(want.reverse()));
        }
    }};
}
macro_rules! ord_signed {
    ($t:ty, $s:expr, $a:expr) => {{
        let v: $t = nd::any();
        let w = words_of(v.unsigned_abs() as u128);
        let vs = if v < 0 { NEG } else { POS };
        let want = signed_cmp($s, $a, vs, &w);
        let x = ibig($s, $a);
        assert!(x.num_partial_cmp(&v) == Some(want));
        assert!(v.num_partial_cmp(&x) == Some(want.reverse()));
        if $s == POS {
            let u = ubig($a);
            assert!(u.num_partial_cmp(&v) == Some(want));
            assert!(v.num_partial_cmp(&u) == Some(want.reverse()));
        }
    }};
}

/// NumOrd between an integer of exactly N words and every value of one primitive integer type
pub fn ord_prim<const N: usize>(s: Sign, which: u8) {
    let a = any_mag::<N>();
    let s = if N == 0 { POS } else { s };
    match which {
        0 => ord_unsigned!(u8, s, &a),
        1 => ord_unsigned!(u16, s, &a),
        2 => ord_unsigned!(u32, s, &a),
        3 => ord_unsigned!(u64, s, &a),
        4 => ord_unsigned!(u128, s, &a),
        5 => ord_unsigned!(usize, s, &a),
        6 => ord_signed!(i8, s, &a),
        7 => ord_signed!(i16, s, &a),
        8 => ord_signed!(i32, s, &a),
        9 => ord_signed!(i64, s, &a),
        10 => ord_signed!(i128, s, &a),
        _ => ord_signed!(isize, s, &a),
    }
}

/// NumOrd between UBig and IBig
pub fn ord_ui<const NA: usize, const NB: usize>(sb: Sign) {
    let a = any_mag::<NA>();
    let b = any_mag::<NB>();
    let sb = if NB == 0 { POS } else { sb };
    let want = signed_cmp(POS, &a, sb, &b);
    let (x, y) = (ubig(&a), ibig(sb, &b));
    assert!(x.num_cmp(&y) == want && x.num_partial_cmp(&y) == Some(want));
    assert!(y.num_cmp(&x) == want.reverse() && y.num_partial_cmp(&x) == Some(want.reverse()));
}

/// NumOrd between integers and LITERAL floats (no symbolic input: the symbolic comparison shifts by a
/// data-dependent amount and is a probe): a grid of small integers against fractions, halves and integers
pub fn ord_float_literals() {
    let ints: [i64; 7] = [0, 1, -1, 2, 3, -3, 1 << 40];
    let floats: [f32; 9] = [0.25, -0.25, 0.5, 1.0, 1.5, -1.5, 2.5, 1099511627776.0, -0.0];
    let mut i = 0;
    while i < ints.len() {
        let v = ints[i];
        let x = if v == 0 { ibig(POS, &[]) } else { ibig(if v < 0 { NEG } else { POS }, &[v.unsigned_abs() as Word]) };
        let mut j = 0;
        while j < floats.len() {
            let f = floats[j];
            let want = (v as f64).partial_cmp(&(f as f64));
            assert!(x.num_partial_cmp(&f) == want, "IBig vs f32 order differs from the exact order");
            assert!(x.num_partial_cmp(&(f as f64)) == want, "IBig vs f64 order differs from the exact order");
            if v >= 0 {
                let u = if v == 0 { ubig(&[]) } else { ubig(&[v as Word]) };
                assert!(u.num_partial_cmp(&f) == want, "UBig vs f32 order differs from the exact order");
            }
            j += 1;
        }
        i += 1;
    }
    assert!(ubig(&[1]).num_partial_cmp(&f32::NAN).is_none());
}

/// NumOrd between EVERY one-word integer (sign given) and a LITERAL float given by its bits: the float's
/// decoded exponent is a constant, so the shifts inside the comparison are by constant amounts.
/// Expected order: exact, from the float's (mantissa, exponent); the table keeps -60 <= exponent <= 60 or
/// |float| < 2^-60.
pub fn ord_float_semi(neg: bool, is64: bool, bits: u64) {
    let v: Word = nd::any();
    let x = if v == 0 { ibig(POS, &[]) } else { ibig(if neg { NEG } else { POS }, &[v]) };
    let xi: i128 = if neg { -(v as i128) } else { v as i128 };
    // exact value of the float = m * 2^e
    let (sign_bit, expf, frac, emax, mbits, bias) = if is64 {
        (bits >> 63 == 1, ((bits >> 52) & 0x7ff) as i32, (bits & ((1 << 52) - 1)) as i128, 0x7ff, 52, 1075)
    } else {
        (bits >> 31 == 1, ((bits >> 23) & 0xff) as i32, (bits & 0x7fffff) as i128, 0xff, 23, 150)
    };
    let (m, e) = if expf == 0 { (frac, 1 - bias) } else { (frac | (1 << mbits), expf - bias) };
    let m = if sign_bit { -m } else { m };
    let want = if expf == emax {
        if frac != 0 {
            None
        } else if m < 0 {
            Some(Ordering::Greater)
        } else {
            Some(Ordering::Less)
        }
    } else if e >= 0 {
        Some(xi.cmp(&(m << (e as u32))))
    } else if -e <= 60 {
        Some((xi << ((-e) as u32)).cmp(&m))
    } else {
        // |float| < 2^-7: zero, or strictly between 0 and +-1
        Some(if m == 0 { xi.cmp(&0) } else if xi == 0 { 0.cmp(&m) } else { xi.cmp(&0) })
    };
    if is64 {
        let f = f64::from_bits(bits);
        assert!(x.num_partial_cmp(&f) == want, "IBig vs f64 order differs from the exact order");
        assert!(f.num_partial_cmp(&x) == want.map(|o| o.reverse()), "f64 vs IBig order differs from the exact order");
        if !neg {
            let u = if v == 0 { ubig(&[]) } else { ubig(&[v]) };
            assert!(u.num_partial_cmp(&f) == want, "UBig vs f64 order differs from the exact order");
        }
    } else {
        let f = f32::from_bits(bits as u32);
        assert!(x.num_partial_cmp(&f) == want, "IBig vs f32 order differs from the exact order");
        assert!(f.num_partial_cmp(&x) == want.map(|o| o.reverse()), "f32 vs IBig order differs from the exact order");
        if !neg {
            let u = if v == 0 { ubig(&[]) } else { ubig(&[v]) };
            assert!(u.num_partial_cmp(&f) == want, "UBig vs f32 order differs from the exact order");
        }
    }
}

fn rec_eq(p: &Rec, q: &Rec) -> bool {
    if p.n != q.n {
        return false;
    }
    let mut i = 0;
    while i < p.n && i < 96 {
        if p.buf[i] != q.buf[i] {
            return false;
        }
        i += 1;
    }
    true
}

/// equal numbers of different types feed identical byte streams to NumHash
pub fn hash_prim(which: u8) {
    let mut h1 = Rec { buf: [0; 96], n: 0 };
    let mut h2 = Rec { buf: [0; 96], n: 0 };
    let mut h3 = Rec { buf: [0; 96], n: 0 };
    match which {
        0 => {
            let v: u64 = nd::any();
            UBig::from(v).num_hash(&mut h1);
            v.num_hash(&mut h2);
            IBig::from(v).num_hash(&mut h3);
        }
        1 => {
            let v: i64 = nd::any();
            IBig::from(v).num_hash(&mut h1);
            v.num_hash(&mut h2);
            (v as i128).num_hash(&mut h3);
        }
        2 => {
            let v: u128 = nd::any();
            UBig::from(v).num_hash(&mut h1);
            v.num_hash(&mut h2);
            IBig::from(v).num_hash(&mut h3);
        }
        _ => {
            let v: i128 = nd::any();
            IBig::from(v).num_hash(&mut h1);
            v.num_hash(&mut h2);
            IBig::from(v).num_hash(&mut h3);
        }
    }
    assert!(rec_eq(&h1, &h2), "NumHash differs between the big integer and the primitive of the same value");
    assert!(rec_eq(&h1, &h3));
}
