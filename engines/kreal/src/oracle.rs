//! Short reference models on fixed-size stack arrays (little endian words).
use dashu_int::{DoubleWord, Sign, Word};

pub type DW = DoubleWord;
const WB: u32 = Word::BITS;

/// out = a + b (ripple carry); lengths arbitrary, out.len() >= max(len)+1 for no overflow.
/// Returns the carry out of out.len() words.
pub fn add(a: &[Word], b: &[Word], out: &mut [Word]) -> bool {
    let mut carry = false;
    let mut i = 0;
    while i < out.len() {
        let x = if i < a.len() { a[i] } else { 0 };
        let y = if i < b.len() { b[i] } else { 0 };
        let (s1, c1) = x.overflowing_add(y);
        let (s2, c2) = s1.overflowing_add(carry as Word);
        out[i] = s2;
        carry = c1 || c2;
        i += 1;
    }
    carry
}

/// out = a - b mod 2^(W*out.len()); returns borrow
pub fn sub(a: &[Word], b: &[Word], out: &mut [Word]) -> bool {
    let mut borrow = false;
    let mut i = 0;
    while i < out.len() {
        let x = if i < a.len() { a[i] } else { 0 };
        let y = if i < b.len() { b[i] } else { 0 };
        let (s1, c1) = x.overflowing_sub(y);
        let (s2, c2) = s1.overflowing_sub(borrow as Word);
        out[i] = s2;
        borrow = c1 || c2;
        i += 1;
    }
    borrow
}

/// compare magnitudes (arrays may have leading zeros, any lengths)
pub fn cmp(a: &[Word], b: &[Word]) -> core::cmp::Ordering {
    let n = if a.len() > b.len() { a.len() } else { b.len() };
    let mut i = n;
    while i > 0 {
        i -= 1;
        let x = if i < a.len() { a[i] } else { 0 };
        let y = if i < b.len() { b[i] } else { 0 };
        if x != y {
            return if x < y {
                core::cmp::Ordering::Less
            } else {
                core::cmp::Ordering::Greater
            };
        }
    }
    core::cmp::Ordering::Equal
}

pub fn is_zero(a: &[Word]) -> bool {
    let mut i = 0;
    while i < a.len() {
        if a[i] != 0 {
            return false;
        }
        i += 1;
    }
    true
}

/// signed addition: (sa, a) + (sb, b) -> (sign, out). out must have max(len)+1 words
pub fn signed_add(sa: Sign, a: &[Word], sb: Sign, b: &[Word], out: &mut [Word]) -> Sign {
    if sa == sb {
        add(a, b, out);
        sa
    } else {
        match cmp(a, b) {
            core::cmp::Ordering::Less => {
                sub(b, a, out);
                sb
            }
            _ => {
                sub(a, b, out);
                sa
            }
        }
    }
}

pub fn flip(s: Sign) -> Sign {
    match s {
        Sign::Positive => Sign::Negative,
        Sign::Negative => Sign::Positive,
    }
}

/// two's complement view over out.len() words of sign*mag (sign extension implied by top word)
pub fn to_twos(sign: Sign, mag: &[Word], out: &mut [Word]) {
    let mut i = 0;
    match sign {
        Sign::Positive => {
            while i < out.len() {
                out[i] = if i < mag.len() { mag[i] } else { 0 };
                i += 1;
            }
        }
        Sign::Negative => {
            // -m = !m + 1
            let mut carry = true;
            while i < out.len() {
                let m = if i < mag.len() { mag[i] } else { 0 };
                let (s, c) = (!m).overflowing_add(carry as Word);
                out[i] = s;
                carry = c;
                i += 1;
            }
        }
    }
}

/// inverse of to_twos: returns sign, writes magnitude to out (same length as t)
pub fn from_twos(t: &[Word], out: &mut [Word]) -> Sign {
    let neg = t[t.len() - 1] >> (WB - 1) != 0;
    let mut i = 0;
    if !neg {
        while i < t.len() {
            out[i] = t[i];
            i += 1;
        }
        Sign::Positive
    } else {
        let mut carry = true;
        while i < t.len() {
            let (s, c) = (!t[i]).overflowing_add(carry as Word);
            out[i] = s;
            carry = c;
            i += 1;
        }
        Sign::Negative
    }
}

/// schoolbook product, elementary products written in the implementation's operand
/// order (b[j] as DW) * (a[i] as DW) (see DESIGN 1(c)). out.len() == a.len()+b.len(), zeroed here.
pub fn mul(a: &[Word], b: &[Word], out: &mut [Word]) {
    let mut k = 0;
    while k < out.len() {
        out[k] = 0;
        k += 1;
    }
    let mut j = 0;
    while j < b.len() {
        let mut carry: Word = 0;
        let mut i = 0;
        while i < a.len() {
            let v = (out[i + j] as DW) + (carry as DW) + (b[j] as DW) * (a[i] as DW);
            out[i + j] = v as Word;
            carry = (v >> WB) as Word;
            i += 1;
        }
        out[j + a.len()] = carry;
        j += 1;
    }
}
