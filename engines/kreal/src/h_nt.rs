//! C12: gcd, integer roots, integer logarithms satisfy their defining (in)equalities.
use crate::logtab::{LOG2_CEIL, LOG2_FLOOR};
use crate::nd;
use crate::oracle;
use crate::shapes::*;
use dashu_base::{CubicRoot, CubicRootRem, EstimatedLog2, ExtendedGcd, Gcd, SquareRoot, SquareRootRem};
use dashu_int::{IBig, Sign, UBig, Word};

// ------------------------------------------------------------------ primitives (dashu-base)

macro_rules! prim_gcd {
    ($u:ty, $wide:ty) => {{
        let a: $u = nd::any();
        let b: $u = nd::any();
        nd::assume(a != 0 || b != 0);
        let g = a.gcd(b);
        let (g2, s, t) = a.gcd_ext(b);
        assert!(g == g2 && g != 0);
        assert!(a % g == 0 && b % g == 0); // common divisor
        // Bezout: every common divisor divides s*a + t*b = g, hence g is the greatest
        assert!((s as $wide) * (a as $wide) + (t as $wide) * (b as $wide) == g as $wide);
    }};
}
pub fn gcd_prim(which: u8) {
    match which {
        0 => prim_gcd!(u8, i32),
        1 => prim_gcd!(u16, i64),
        _ => prim_gcd!(u32, i128),
    }
}

/// gcd(0, 0) panics (documented)
pub fn gcd_prim_zero() {
    let r = 0u16.gcd(0u16);
    core::hint::black_box(r);
    cover!(true, "returned");
}

macro_rules! prim_sqrt {
    ($u:ty, $wide:ty) => {{
        let n: $u = nd::any();
        let (s, r) = n.sqrt_rem();
        let s = s as $wide;
        assert!(s * s <= n as $wide && (n as $wide) < (s + 1) * (s + 1));
        assert!(r as $wide == n as $wide - s * s);
    }};
}
macro_rules! prim_cbrt {
    ($u:ty, $wide:ty) => {{
        let n: $u = nd::any();
        let (s, r) = n.cbrt_rem();
        let s = s as $wide;
        assert!(s * s * s <= n as $wide && (n as $wide) < (s + 1) * (s + 1) * (s + 1));
        assert!(r as $wide == n as $wide - s * s * s);
    }};
}
pub fn root_prim(which: u8) {
    match which {
        0 => prim_sqrt!(u8, u32),
        1 => prim_sqrt!(u16, u32),
        2 => prim_sqrt!(u32, u64),
        3 => prim_sqrt!(u64, u128),
        4 => prim_cbrt!(u8, u32),
        5 => prim_cbrt!(u16, u64),
        6 => prim_cbrt!(u32, u128),
        _ => prim_cbrt!(u64, u128),
    }
}

const TWO40: f64 = 1099511627776.0; // 2^40, multiplication by it is exact in f64

/// log2_bounds of every u8 / u16 value (the table-driven no_std estimator):
/// lb <= log2(n) <= ub, decided exactly against floor/ceil(2^40 log2 n) (see tools/mklogtab.py)
pub fn log2_u16<const SPAN: usize>(lo: u16, as_u8: bool) {
    let n: u16 = nd::any();
    nd::assume(n >= lo && (n as usize) < lo as usize + SPAN && n != 0);
    let (lb, ub) = if as_u8 { (n as u8).log2_bounds() } else { n.log2_bounds() };
    assert!(lb.is_finite() && ub.is_finite());
    // local copies of the table window (constant indices): the symbolic lookup is over SPAN entries only
    let mut tf = [0u64; SPAN];
    let mut tc = [0u64; SPAN];
    let mut i = 0;
    while i < SPAN {
        tf[i] = LOG2_FLOOR[lo as usize + i];
        tc[i] = LOG2_CEIL[lo as usize + i];
        i += 1;
    }
    let f = tf[(n - lo) as usize] as f64;
    let c = tc[(n - lo) as usize] as f64;
    assert!((lb as f64) * TWO40 <= f, "lower bound exceeds log2(n)");
    assert!((ub as f64) * TWO40 >= c, "upper bound below log2(n)");
    // and the bounds are useful: within 1/64 of each other
    assert!(ub - lb <= 0.015625);
}

pub fn log2_zero() {
    let (lb, ub) = 0u8.log2_bounds();
    assert!(lb == f32::NEG_INFINITY && ub == f32::NEG_INFINITY);
    let (lb, ub) = 0u64.log2_bounds();
    assert!(lb == f32::NEG_INFINITY && ub == f32::NEG_INFINITY);
}

/// u32 / u64: the 16-bit-prefix reduction (h = top 16 bits, s = shift): the returned bounds must
/// enclose a rigorous enclosure of log2 n derived from the exact table entry of h (necessary
/// conditions, tight to ~2^-34: never a false alarm, and a bound that misses log2 n by more is caught).
pub fn log2_wide<const SPAN: usize, const SPAN1: usize>(is64: bool, hlo: usize) {
    let n: u64 = if is64 { nd::any() } else { nd::any::<u32>() as u64 };
    nd::assume(n > 0xffff);
    let (lb, ub) = if is64 { n.log2_bounds() } else { (n as u32).log2_bounds() };
    let bits = 64 - n.leading_zeros();
    let s = bits - 16;
    let h = (n >> s) as usize;
    // window on the 16-bit prefix, with local copies of the table window (SPAN1 = SPAN + 1 entries)
    nd::assume(h >= hlo && h < hlo + SPAN);
    let mut tf = [0u64; SPAN1];
    let mut tc = [0u64; SPAN1];
    let mut i = 0;
    while i < SPAN1 {
        tf[i] = if hlo + i < 65536 { LOG2_FLOOR[hlo + i] } else { 16 << 40 };
        tc[i] = if hlo + i < 65536 { LOG2_CEIL[hlo + i] } else { 16 << 40 };
        i += 1;
    }
    if n.is_power_of_two() {
        assert!(lb == (bits - 1) as f32 && ub == lb);
        return;
    }
    let base = (s as f64) * TWO40;
    // n = (h + j/2^s) * 2^s with 0 <= j < 2^s, so log2 n = log2 h + s + log2(1 + x), x = j / (h 2^s) < 2^-15,
    // and  x <= log2(1 + x) <= x / ln 2  on [0, 1]: rigorous bounds on log2 n from the exact table entry of h.
    let j = n - ((h as u64) << s);
    let x = (j as f64) / (((h as u64) << s) as f64);
    let slack = 64.0; // f64 rounding of the few operations above, in units of 2^-40
    let lower = tf[h - hlo] as f64 + base + x * TWO40 - slack; // <= 2^40 log2 n
    let upper = tc[h - hlo] as f64 + base + x * 1.4427 * TWO40 + slack; // >= 2^40 log2 n
    assert!((ub as f64) * TWO40 >= lower, "upper bound below log2(n)");
    assert!((lb as f64) * TWO40 <= upper, "lower bound exceeds log2(n)");
    assert!(ub - lb <= 0.03125);
}

/// next_up / next_down are adjacent floats in the right direction, for every finite f32
pub fn next_updown() {
    let bits: u32 = nd::any();
    let f = f32::from_bits(bits);
    nd::assume(f.is_finite());
    let u = dashu_base::utils::next_up(f);
    let d = dashu_base::utils::next_down(f);
    assert!(u > f || (f == f32::MAX && u.is_infinite()));
    assert!(d < f || (f == f32::MIN && d.is_infinite()));
    // adjacency: the ordered integer keys differ by one (with +-0 identified)
    let key = |x: f32| -> i64 {
        let b = x.to_bits();
        if b >> 31 == 0 {
            b as i64
        } else {
            -((b & 0x7fff_ffff) as i64)
        }
    };
    assert!(key(u) - key(f) == 1);
    assert!(key(f) - key(d) == 1);
}

// ------------------------------------------------------------------ big integers, small operands (inline-only regime)

fn small_u(v: Word) -> UBig {
    if v == 0 {
        ubig(&[])
    } else {
        ubig(&[v])
    }
}
fn val_u(x: &UBig) -> Word {
    let w = x.as_words();
    assert!(w.len() <= 1);
    if w.is_empty() {
        0
    } else {
        w[0]
    }
}

/// nth_root(n) of a value below 2^n (the "result must be 1" shortcut): root is 0 for 0 and 1 otherwise
pub fn nth_root_tiny(n: usize) {
    let v: Word = nd::any();
    nd::assume(n >= 64 || v < ((1 as Word) << n));
    let r = small_u(v).nth_root(n);
    assert!(canonical_u(&r));
    assert!(val_u(&r) == (v != 0) as Word, "root of a value below 2^n must be 0 or 1");
}

/// nth_root(n) of 0 and of 1 for EVERY n >= 1 (n symbolic): 0 and 1
pub fn nth_root_zero_one(one: bool) {
    let n: usize = nd::any();
    nd::assume(n >= 1);
    let x = if one { ubig(&[1]) } else { ubig(&[]) };
    let r = x.nth_root(n);
    assert!(canonical_u(&r));
    assert!(val_u(&r) == one as Word, "n-th root of 0 is 0 and of 1 is 1");
    let xi = if one { ibig(POS, &[1]) } else { ibig(POS, &[]) };
    let ri = xi.nth_root(n);
    let (_, w) = ri.as_sign_words();
    assert!(w.len() == one as usize);
}

/// sqrt / sqrt_rem / nth_root(1) / nth_root(2) of one-word values below 2^bits
pub fn sqrt_small(bits: u32, which: u8) {
    let v: Word = nd::any();
    nd::assume(v < ((1 as Word) << bits));
    let x = small_u(v);
    let (s, r): (Word, Option<Word>) = match which {
        0 => (val_u(&x.sqrt()), None),
        1 => {
            let (s, r) = x.sqrt_rem();
            assert!(canonical_u(&s) && canonical_u(&r));
            (val_u(&s), Some(val_u(&r)))
        }
        2 => (val_u(&x.nth_root(2)), None),
        _ => {
            let r1 = x.nth_root(1);
            assert!(val_u(&r1) == v);
            (val_u(&x.sqrt()), None)
        }
    };
    let (s2, n2) = (s as u128, v as u128);
    assert!(s2 * s2 <= n2 && n2 < (s2 + 1) * (s2 + 1));
    if let Some(r) = r {
        assert!(r as u128 == n2 - s2 * s2);
    }
}

/// cube root of a small negative IBig (|x| < 8: the bit-length shortcut answers, the Newton loop is never
/// entered, so a small unwind bound suffices): -1, never a panic
pub fn cbrt_tiny(s: Sign) {
    let v: Word = nd::any();
    nd::assume(v != 0 && v < 8);
    let x = ibig(s, &[v]);
    let r = x.cbrt();
    let (rs, rw) = r.as_sign_words();
    assert!(rw.len() == 1 && rw[0] == 1 && rs == s);
    let r3 = x.nth_root(3);
    let (r3s, r3w) = r3.as_sign_words();
    assert!(r3w.len() == 1 && r3w[0] == 1 && r3s == s);
}

/// cube roots of a few literal values of either sign (the symbolic versions run out of memory because the
/// Newton start value is `1 << (bit_len / n)`, a shift by a symbolic amount): value and sign, no panic
pub fn cbrt_literals() {
    let cases: [(i64, i64); 8] = [(-1, -1), (-7, -1), (-8, -2), (-9, -2), (-27, -3), (-1000, -10), (8, 2), (26, 2)];
    let mut i = 0;
    while i < cases.len() {
        let (v, want) = cases[i];
        let x = ibig(if v < 0 { NEG } else { POS }, &[v.unsigned_abs() as Word]);
        let r = x.cbrt();
        let (rs, rw) = r.as_sign_words();
        assert!(rw.len() == 1 && rw[0] == want.unsigned_abs() as Word && (rs == NEG) == (want < 0));
        i += 1;
    }
}

/// cube root of a (possibly negative) IBig: truncated toward zero, never panics
pub fn cbrt_small(s: Sign, bits: u32) {
    let v: Word = nd::any();
    nd::assume(v < ((1 as Word) << bits) && v != 0);
    let x = ibig(s, &[v]);
    let r = x.cbrt();
    assert!(canonical_i(&r));
    let (rs, rw) = r.as_sign_words();
    let m = if rw.is_empty() { 0 } else { rw[0] } as u128;
    assert!(m * m * m <= v as u128 && (v as u128) < (m + 1) * (m + 1) * (m + 1));
    assert!(m == 0 || rs == s);
    let r3 = x.nth_root(3);
    let (r3s, r3w) = r3.as_sign_words();
    assert!((if r3w.is_empty() { 0 } else { r3w[0] }) as u128 == m && (m == 0 || r3s == s));
}

/// documented panics: zeroth root, even root of a negative, sqrt of a negative, ilog domain
pub fn root_panics(which: u8) {
    let v: Word = nd::any();
    nd::assume(v != 0 && v < 1000);
    match which {
        0 => core::mem::forget(ubig(&[v]).nth_root(0)),
        1 => core::mem::forget(ibig(NEG, &[v]).nth_root(2)),
        2 => core::mem::forget(ibig(NEG, &[v]).nth_root(4)),
        3 => core::mem::forget(ibig(NEG, &[v]).sqrt()),
        4 => core::mem::forget(ibig(POS, &[v]).nth_root(0)),
        5 => {
            let _ = ubig(&[]).ilog(&ubig(&[v + 1]));
        }
        6 => {
            let _ = ubig(&[v]).ilog(&ubig(&[1]));
        }
        7 => {
            let _ = ubig(&[v]).ilog(&ubig(&[]));
        }
        _ => core::mem::forget(ubig(&[]).gcd(&ubig(&[]))),
    }
    cover!(true, "returned");
}

/// ilog with a power-of-two base 2^k (shortcut path), x of N words: 2^(k e) <= x < 2^(k (e+1))
pub fn ilog_pow2<const N: usize>(k: u32) {
    let a = any_mag::<N>();
    nd::assume(N > 0);
    let x = ubig(&a);
    let e = x.ilog(&ubig(&[(1 as Word) << k]));
    let bl = N * (Word::BITS as usize) - a[N - 1].leading_zeros() as usize;
    // base^e <= x  <=>  k*e <= bl-1 ;  x < base^(e+1)  <=>  bl <= k*(e+1)
    assert!(k as usize * e <= bl - 1 && bl <= k as usize * (e + 1));
}

/// gcd / gcd_ext of one-word operands below 2^bits through the UBig API
pub fn gcd_small(bits: u32) {
    let a: Word = nd::any();
    let b: Word = nd::any();
    nd::assume(a < (1 << bits) && b < (1 << bits) && (a != 0 || b != 0));
    let (x, y) = (small_u(a), small_u(b));
    let g = (&x).gcd(&y);
    let gv = val_u(&g);
    assert!(gv != 0 && a % gv == 0 && b % gv == 0);
    let (g2, s, t) = (&x).gcd_ext(&y);
    assert!(val_u(&g2) == gv);
    let to_i = |v: &IBig| -> i128 {
        let (sg, w) = v.as_sign_words();
        let m = if w.is_empty() { 0 } else { w[0] as i128 };
        if sg == NEG {
            -m
        } else {
            m
        }
    };
    assert!(to_i(&s) * a as i128 + to_i(&t) * b as i128 == gv as i128);
}

/// gcd_ext(a, b) for a of N >= 3 structured words and a literal one-word b: g divides both, and
/// s*a + t*b == g with the signs as returned (t is multi-word)
pub fn gcd_ext_large_word<const N: usize, const P: usize>(b: Word, swap: bool) {
    use core::cmp::Ordering;
    let a: [Word; N] = smag::<N>(4);
    let (g, s, t) = if swap { ubig(&[b]).gcd_ext(ubig(&a)) } else { ubig(&a).gcd_ext(ubig(&[b])) };
    let (s, t) = if swap { (t, s) } else { (s, t) }; // s multiplies a, t multiplies b
    let gw = val_u(&g);
    assert!(gw != 0 && b % gw == 0);
    // |s| * a and |t| * b as P-word naturals (P = N + 2)
    let (ss, sw) = s.as_sign_words();
    let (ts, tw) = t.as_sign_words();
    assert!(sw.len() <= 1 && tw.len() <= N + 1);
    let sv = if sw.is_empty() { 0 } else { sw[0] };
    let mut sa = [0 as Word; P];
    oracle::mul(&a, &[sv], &mut sa[..N + 1]);
    let mut tarr = [0 as Word; P];
    let mut i = 0;
    while i < tw.len() {
        tarr[i] = tw[i];
        i += 1;
    }
    let mut tb = [0 as Word; P];
    oracle::mul(&tarr[..N + 1], &[b], &mut tb[..N + 2]);
    // s*a + t*b == g  with opposite signs (or one of them zero)
    let mut diff = [0 as Word; P];
    let gs = [gw];
    match oracle::cmp(&sa, &tb) {
        Ordering::Greater => {
            oracle::sub(&sa, &tb, &mut diff);
            assert!(oracle::cmp(&diff, &gs) == Ordering::Equal, "Bezout identity fails");
            assert!(ss == POS && (oracle::is_zero(&tb) || ts == NEG), "Bezout signs wrong");
        }
        _ => {
            oracle::sub(&tb, &sa, &mut diff);
            assert!(oracle::cmp(&diff, &gs) == Ordering::Equal, "Bezout identity fails");
            assert!(ts == POS && (oracle::is_zero(&sa) || ss == NEG), "Bezout signs wrong");
        }
    }
}

/// kernel gcd::gcd_ext_word(lhs, rhs): g = gcd, and a*lhs + b*rhs == g with b = b_sign * (lhs after the call)
pub fn k_gcd_ext_word<const N: usize, const P: usize>(rhs: Word) {
    let l0: [Word; N] = nd::any();
    nd::assume(l0[N - 1] != 0);
    k_gcd_ext_word_on::<N, P>(l0, rhs);
}

/// the same with LITERAL upper words and a symbolic low word below 2^sbits: the word-level Euclid loop then
/// runs on (rhs, lhs mod rhs) with every residue reachable
pub fn k_gcd_ext_word_lowsym<const N: usize, const P: usize>(up: [Word; N], rhs: Word, sbits: u32) {
    let s: Word = nd::any();
    if sbits < Word::BITS {
        nd::assume(s < (1 << sbits));
    }
    let mut l0 = up;
    l0[0] = s;
    k_gcd_ext_word_on::<N, P>(l0, rhs);
}

fn k_gcd_ext_word_on<const N: usize, const P: usize>(l0: [Word; N], rhs: Word) {
    use core::cmp::Ordering;
    let mut l: Box<[Word; N]> = Box::new(l0);
    let (g, a, b_sign) = dashu_int::verif::gcd::gcd_ext_word(&mut l[..], rhs);
    assert!(g != 0 && rhs % g == 0);
    let a_neg = a < 0;
    let a_mag = a.unsigned_abs() as Word;
    // |a| * lhs0 and |b| * rhs as P-word naturals (P = N + 1)
    let mut al = [0 as Word; P];
    oracle::mul(&l0, &[a_mag], &mut al);
    let mut br = [0 as Word; P];
    oracle::mul(&l[..], &[rhs], &mut br);
    let mut diff = [0 as Word; P];
    let gs = [g];
    let b_neg = b_sign == NEG;
    match oracle::cmp(&al, &br) {
        Ordering::Greater => {
            oracle::sub(&al, &br, &mut diff);
            assert!(oracle::cmp(&diff, &gs) == Ordering::Equal, "Bezout identity fails");
            assert!(!a_neg && (oracle::is_zero(&br) || b_neg), "Bezout signs wrong");
        }
        _ => {
            oracle::sub(&br, &al, &mut diff);
            assert!(oracle::cmp(&diff, &gs) == Ordering::Equal, "Bezout identity fails");
            assert!(!b_neg && (oracle::is_zero(&al) || a_neg), "Bezout signs wrong");
        }
    }
}

/// UBig::remove with a power-of-two factor (shift path) and a small odd factor on small values
pub fn remove_small(bits: u32, factor: Word) {
    let v: Word = nd::any();
    nd::assume(v < (1 << bits) && v != 0);
    let mut x = small_u(v);
    let e = x.remove(&small_u(factor));
    let q = val_u(&x) as u128;
    match e {
        None => panic!("remove returned None for a non-zero value and factor >= 2"),
        Some(e) => {
            // v = q * factor^e and factor does not divide q
            let mut p: u128 = 1;
            let mut i = 0;
            while i < e {
                p *= factor as u128;
                i += 1;
            }
            assert!(q * p == v as u128);
            assert!(q % factor as u128 != 0);
        }
    }
}
