//! Native replay of a solver counterexample: `replay <harness> <hexbytes>,<hexbytes>,...`
//! exit 0: harness body ran to completion (no violation reproduced)
//! exit 1: panic / assertion failure reproduced (message on stdout)
//! exit 3: inputs rejected by an assumption, or queue exhausted (not a valid counterexample)
use kreal::nd;
use std::panic;

fn unhex(s: &str) -> Vec<u8> {
    (0..s.len() / 2).map(|i| u8::from_str_radix(&s[2 * i..2 * i + 2], 16).unwrap()).collect()
}

fn main() {
    let args: Vec<String> = std::env::args().collect();
    let name = &args[1];
    let vals: Vec<Vec<u8>> = if args.len() > 2 && !args[2].is_empty() {
        args[2].split(',').map(unhex).collect()
    } else {
        vec![]
    };
    let f = match kreal::gen::dispatch(name) {
        Some(f) => f,
        None => {
            println!("REPLAY {} UNKNOWN-HARNESS", name);
            std::process::exit(4);
        }
    };
    nd::queue::load(vals);
    let r = panic::catch_unwind(f);
    match r {
        Ok(()) => {
            if nd::queue::exhausted() {
                println!("REPLAY {} EXHAUSTED", name);
                std::process::exit(3);
            }
            println!("REPLAY {} OK", name);
        }
        Err(e) => {
            if nd::queue::rejected() || e.downcast_ref::<nd::Rejected>().is_some() {
                println!("REPLAY {} REJECTED", name);
                std::process::exit(3);
            }
            let msg = if let Some(s) = e.downcast_ref::<&str>() {
                s.to_string()
            } else if let Some(s) = e.downcast_ref::<String>() {
                s.clone()
            } else {
                "<non-string panic>".to_string()
            };
            println!("REPLAY {} PANIC {}", name, msg.replace('\n', " "));
            std::process::exit(1);
        }
    }
}
