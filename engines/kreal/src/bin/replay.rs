//! Native replay of a solver counterexample: `replay <harness> <hexbytes>,<hexbytes>,...`
//! exit 0: harness body ran to completion (no violation reproduced)
//! exit 1: panic / assertion failure reproduced (message on stdout)
//! exit 3: inputs rejected by an assumption, or queue exhausted (not a valid counterexample)
use kreal::nd;
use std::panic;

fn unhex(s: &str) -> Vec<u8> {
    (0..s.len() / 2).map(|i| u8::from_str_radix(&s[2 * i..2 * i + 2], 16).unwrap()).collect()
}

/// `replay --random <count> <seed> <harness>...`: run harness bodies on random inputs (dev aid)
fn random_mode(args: &[String]) {
    let count: usize = args[2].parse().unwrap();
    let mut state: u64 = args[3].parse::<u64>().unwrap() | 1;
    let mut next = move || {
        state ^= state << 13;
        state ^= state >> 7;
        state ^= state << 17;
        state
    };
    panic::set_hook(Box::new(|_| {}));
    let mut bad = 0;
    for name in &args[4..] {
        let f = match kreal::gen::dispatch(name) {
            Some(f) => f,
            None => {
                println!("RANDOM {} UNKNOWN-HARNESS", name);
                continue;
            }
        };
        let (mut ok, mut rej, mut fail) = (0, 0, 0);
        let mut first = String::new();
        for _ in 0..count {
            let mut vals = Vec::new();
            for _ in 0..48 {
                let mode = next() % 10;
                let mut v = vec![0u8; 16];
                match mode {
                    0 | 1 => v.iter_mut().for_each(|b| *b = 0xff),
                    2 => {}
                    3 | 4 => v[0] = (next() % 4) as u8,
                    5 => {
                        v[0] = (next() % 200) as u8;
                    }
                    _ => v.iter_mut().for_each(|b| *b = next() as u8),
                }
                vals.push(v);
            }
            let hex: Vec<String> = vals.iter().map(|v| v.iter().map(|b| format!("{:02x}", b)).collect()).collect();
            nd::queue::load(vals);
            match panic::catch_unwind(f) {
                Ok(()) => ok += 1,
                Err(e) => {
                    if nd::queue::rejected() || e.downcast_ref::<nd::Rejected>().is_some() {
                        rej += 1
                    } else {
                        fail += 1;
                        if first.is_empty() {
                            let msg = if let Some(s) = e.downcast_ref::<&str>() {
                                s.to_string()
                            } else if let Some(s) = e.downcast_ref::<String>() {
                                s.clone()
                            } else {
                                "?".into()
                            };
                            first = format!("{} :: {}", msg, hex[..12].join(","));
                        }
                    }
                }
            }
        }
        if fail > 0 {
            bad += 1;
        }
        println!("RANDOM {} ok={} rejected={} panicked={} {}", name, ok, rej, fail, first);
    }
    std::process::exit(if bad > 0 { 1 } else { 0 });
}

fn main() {
    let args: Vec<String> = std::env::args().collect();
    if args[1] == "--random" {
        return random_mode(&args);
    }
    let name = &args[1];
    let vals: Vec<Vec<u8>> = if args.len() > 2 && !args[2].is_empty() {
        args[2].split(',').map(unhex).collect()
    } else {
        vec![]
    };
    let f = match kreal::gen::dispatch(name) {
        Some(f) => f,
        None => {
            println!("REPLAY {} UNKNOWN-HARNESS", name);
            std::process::exit(4);
        }
    };
    nd::queue::load(vals);
    let r = panic::catch_unwind(f);
    match r {
        Ok(()) => {
            if nd::queue::exhausted() {
                println!("REPLAY {} EXHAUSTED", name);
                std::process::exit(3);
            }
            println!("REPLAY {} OK", name);
        }
        Err(e) => {
            if nd::queue::rejected() || e.downcast_ref::<nd::Rejected>().is_some() {
                println!("REPLAY {} REJECTED", name);
                std::process::exit(3);
            }
            let msg = if let Some(s) = e.downcast_ref::<&str>() {
                s.to_string()
            } else if let Some(s) = e.downcast_ref::<String>() {
                s.clone()
            } else {
                "<non-string panic>".to_string()
            };
            println!("REPLAY {} PANIC {}", name, msg.replace('\n', " "));
            std::process::exit(1);
        }
    }
}
