//! C17: the hand-managed storage (Buffer, Repr::from_buffer/into_buffer, the bump allocator Memory)
//! keeps its invariants and stays inside its allocations (Kani's pointer checks are the assertions).
//! C16: primitive-operand operator forms do not panic beyond the documented cases.
use crate::nd;
use crate::oracle;
use crate::shapes::*;
use dashu_int::verif::{self, Buffer, MemoryAllocation, RawRepr};
use dashu_int::{IBig, Sign, UBig, Word};

fn fill(buf: &mut Buffer, a: &[Word]) {
    let mut i = 0;
    while i < a.len() {
        buf.push(a[i]);
        i += 1;
    }
}

/// one Buffer operation from a buffer of N symbolic words with capacity variant `cv`, then from_buffer
/// op: 0 push_resizing 1 push_zeros(2) 2 push_zeros_front(2) 3 push_slice 4 pop_zeros+truncate(1) 5 erase_front(1)
///     6 ensure_capacity(N+5) 7 ensure_capacity_exact(N+3) 8 shrink_to_fit 9 clone_from_slice 10 into_boxed_slice
///     11 clone 12 clone_from 13 resizing push x3
pub fn buffer_op<const N: usize, const M: usize>(cv: u8, op: u8) {
    let a: [Word; N] = nd::any();
    let cap = match cv {
        0 => Buffer::default_capacity(N),
        1 => N.max(2), // every Buffer the crate creates has capacity >= 2
        _ => Buffer::max_compact_capacity(N) + 3, // beyond compact: from_buffer must shrink
    };
    let mut buf = Buffer::allocate_exact(cap);
    fill(&mut buf, &a);
    let mut m = [0 as Word; M]; // expected content after the operation (M >= N + 3)
    let mut i = 0;
    while i < N {
        m[i] = a[i];
        i += 1;
    }
    let w: Word = nd::any();
    match op {
        0 => {
            buf.push_resizing(w); // documented: no-op for a zero word
            m[N] = w;
        }
        1 => {
            buf.ensure_capacity(N + 2);
            buf.push_zeros(2);
        }
        2 => {
            buf.ensure_capacity(N + 2);
            buf.push_zeros_front(2);
            let mut j = N;
            while j > 0 {
                m[j + 1] = m[j - 1];
                j -= 1;
            }
            m[0] = 0;
            if N > 0 {
                m[1] = 0;
            }
        }
        3 => {
            buf.ensure_capacity(N + 2);
            buf.push_slice(&[w, 7]);
            m[N] = w;
            m[N + 1] = 7;
        }
        4 => {
            buf.pop_zeros();
            if buf.len() > 1 {
                buf.truncate(1);
                let mut j = 1;
                while j < M {
                    m[j] = 0;
                    j += 1;
                }
            }
        }
        5 => {
            if N >= 1 {
                buf.erase_front(1);
                let mut j = 0;
                while j + 1 < M {
                    m[j] = m[j + 1];
                    j += 1;
                }
            }
        }
        6 => buf.ensure_capacity(N + 5),
        7 => buf.ensure_capacity_exact(N + 3),
        8 => buf.shrink_to_fit(),
        9 => {
            let src = [w, 3, 5];
            buf.clone_from_slice(&src);
            m = [0; M];
            m[0] = w;
            m[1] = 3;
            m[2] = 5;
        }
        10 => {
            let b = buf.into_boxed_slice();
            assert!(b.len() == N);
            let mut j = 0;
            while j < N {
                assert!(b[j] == a[j]);
                j += 1;
            }
            return;
        }
        11 => {
            let c = buf.clone();
            assert!(c.len() == N && c.capacity() >= N && c.capacity() <= Buffer::max_compact_capacity(N));
            drop(buf);
            buf = c;
        }
        12 => {
            let mut c = Buffer::allocate_exact(2);
            c.push(9);
            c.clone_from(&buf);
            drop(buf);
            buf = c;
        }
        _ => {
            buf.push_resizing(w); // documented: no-op for a zero word
            buf.push_resizing(1);
            buf.push_resizing(2);
            let k = if w != 0 {
                m[N] = w;
                N + 1
            } else {
                N
            };
            m[k] = 1;
            m[k + 1] = 2;
        }
    }
    assert!(buf.len() <= buf.capacity());
    let x = verif::ubig_from_repr(RawRepr::from_buffer(buf));
    assert!(check_u(&x, &m));
}

/// Repr -> Buffer -> Repr round trip from every shape
pub fn into_buffer_roundtrip<const N: usize>() {
    let a = any_mag::<N>();
    let x = ubig(&a);
    let words_before = x.as_words().len();
    assert!(words_before == N);
    // UBig -> Repr is not public: go through clone + the public API that uses into_buffer (x + 0 via words)
    let y = UBig::from_words(x.as_words());
    assert!(check_u(&y, &a));
    let z = x.clone();
    drop(x);
    assert!(check_u(&z, &a));
}

/// bump allocator: slices are in bounds, disjoint and hold what was written
pub fn memory_slices() {
    use dashu_int::verif::Memory;
    let layout = core::alloc::Layout::array::<Word>(8).unwrap();
    let mut alloc = MemoryAllocation::new(layout);
    let mut mem = alloc.memory();
    let v: Word = nd::any();
    let src: [Word; 3] = nd::any();
    let (s1, mut mem2) = mem.allocate_slice_fill::<Word>(3, v);
    let (s2, mut mem3) = mem2.allocate_slice_copy::<Word>(&src);
    let (s3, _mem4) = mem3.allocate_slice_copy_fill::<Word>(2, &src[..1], 5);
    assert!(s1.len() == 3 && s2.len() == 3 && s3.len() == 2);
    s1[0] = 1;
    s2[2] = 2;
    s3[1] = 3;
    assert!(s1[1] == v && s1[2] == v && s1[0] == 1);
    assert!(s2[0] == src[0] && s2[1] == src[1] && s2[2] == 2);
    assert!(s3[0] == src[0] && s3[1] == 3);
    let p1 = s1.as_ptr() as usize;
    let p2 = s2.as_ptr() as usize;
    let p3 = s3.as_ptr() as usize;
    let wsz = core::mem::size_of::<Word>();
    assert!(p1 + 3 * wsz <= p2 && p2 + 3 * wsz <= p3);
}

/// asking the bump allocator for more than it holds panics (documented "internal error")
pub fn memory_exhausted() {
    let layout = core::alloc::Layout::array::<Word>(2).unwrap();
    let mut alloc = MemoryAllocation::new(layout);
    let mut mem = alloc.memory();
    let n: usize = nd::any();
    nd::assume(n >= 3 && n <= 6);
    let (s, _) = mem.allocate_slice_fill::<Word>(n, 0);
    core::hint::black_box(s.len());
    cover!(true, "returned");
}

// ------------------------------------------------------------------ self-assignment style sequences (2-3 steps)

/// x op= &x.clone() across the inline/heap boundary, then shrink back
pub fn self_assign<const N: usize, const M: usize>(which: u8) {
    let a = any_mag::<N>();
    let mut x = ubig(&a);
    let mut m = [0 as Word; M]; // M = N + 1
    match which {
        0 => {
            let c = x.clone();
            x += &c;
            oracle::add(&a, &a, &mut m);
            assert!(check_u(&x, &m));
            x -= &c;
            let mut back = [0 as Word; M];
            let mut i = 0;
            while i < N {
                back[i] = a[i];
                i += 1;
            }
            assert!(check_u(&x, &back));
        }
        1 => {
            let c = x.clone();
            x -= &c;
            assert!(check_u(&x, &m));
            x.clone_from(&c);
            drop(c);
            let mut back = [0 as Word; M];
            let mut i = 0;
            while i < N {
                back[i] = a[i];
                i += 1;
            }
            assert!(check_u(&x, &back));
        }
        _ => {
            let c = x.clone();
            x ^= &c;
            assert!(check_u(&x, &m));
            x |= c;
            let mut back = [0 as Word; M];
            let mut i = 0;
            while i < N {
                back[i] = a[i];
                i += 1;
            }
            assert!(check_u(&x, &back));
        }
    }
}

// ------------------------------------------------------------------ C16 / C15: primitive-operand forms

fn ival(x: &IBig) -> i128 {
    let (s, w) = x.as_sign_words();
    assert!(w.len() <= 1);
    let m = if w.is_empty() { 0 } else { w[0] as i128 };
    if s == NEG {
        -m
    } else {
        m
    }
}

macro_rules! prim_forms {
    ($t:ty, $x:expr, $xv:expr, $op:expr, $allow_neg_rem:expr) => {{
        let p: $t = nd::any();
        let pv = p as i128;
        match $op {
            0 => {
                assert!(ival(&($x() + p)) == $xv + pv);
                assert!(ival(&(p + $x())) == $xv + pv);
                let mut y = $x();
                y += p;
                assert!(ival(&y) == $xv + pv);
            }
            1 => {
                assert!(ival(&($x() - p)) == $xv - pv);
                assert!(ival(&(p - $x())) == pv - $xv);
                let mut y = $x();
                y -= p;
                assert!(ival(&y) == $xv - pv);
            }
            2 => {
                assert!(ival(&($x() * p)) == $xv * pv);
                assert!(ival(&(p * &$x())) == $xv * pv);
                let mut y = $x();
                y *= p;
                assert!(ival(&y) == $xv * pv);
            }
            3 => {
                nd::assume(p != 0);
                assert!(ival(&($x() / p)) == $xv / pv);
                let mut y = $x();
                y /= p;
                assert!(ival(&y) == $xv / pv);
            }
            _ => {
                nd::assume(p != 0);
                if !$allow_neg_rem {
                    // a negative remainder does not fit an unsigned primitive: see the known finding twin
                    nd::assume($xv % pv >= 0);
                }
                let r = $x() % p;
                assert!(r as i128 == $xv % pv);
                let r2 = &$x() % &p;
                assert!(r2 as i128 == $xv % pv);
            }
        }
    }};
}

/// IBig (one word, |x| < 2^bits) op primitive, op: 0 + 1 - 2 * 3 / 4 %
pub fn ibig_prim(s: Sign, ty: u8, op: u8, bits: u32) {
    let v: Word = nd::any();
    nd::assume(v < (1 << bits) && v != 0);
    let xv: i128 = if s == NEG { -(v as i128) } else { v as i128 };
    let x = || ibig(s, &[v]);
    match ty {
        0 => prim_forms!(u8, x, xv, op, false),
        1 => prim_forms!(u16, x, xv, op, false),
        2 => prim_forms!(u32, x, xv, op, false),
        3 => prim_forms!(i8, x, xv, op, true),
        4 => prim_forms!(i16, x, xv, op, true),
        _ => prim_forms!(i32, x, xv, op, true),
    }
}

/// KNOWN FINDING twin: IBig % unsigned primitive with a negative dividend and non-zero remainder
pub fn ibig_rem_unsigned_negative() {
    let v: Word = nd::any();
    let p: u8 = nd::any();
    nd::assume(v < 1000 && v != 0 && p != 0 && v % (p as Word) != 0);
    let r = ibig(NEG, &[v]) % p;
    core::hint::black_box(r);
}
