//! C06: IEEE-754 encode/decode of (mantissa, exponent) pairs (dashu-base FloatEncoding), loop-free,
//! fully symbolic, against a short integer reference model.
use crate::nd;
use dashu_base::{Approximation, FloatEncoding, Sign};

/// Reference: correctly rounded (nearest, ties to even) encoding of mag * 2^e on a binary grid with
/// P mantissa bits (incl. hidden bit), least subnormal exponent EMIN, exponent field of EB bits.
/// Returns (magnitude bits without sign, exact?, rounded_up?)
pub fn encode_ref(mag: u128, e: i32, p: u32, emin: i32, eb: u32) -> (u64, bool, bool) {
    if mag == 0 {
        return (0, true, false);
    }
    let n = (128 - mag.leading_zeros()) as i32; // bit length
    let t = n - 1 + e; // exponent of the top bit
    let mut q = t - (p as i32 - 1); // exponent of the last kept bit
    if q < emin {
        q = emin;
    }
    let (mut m, exact, up): (u128, bool, bool);
    if q <= e {
        // exact: n + (e-q) <= p bits
        m = mag << ((e - q) as u32);
        exact = true;
        up = false;
    } else {
        let s = (q - e) as u32; // >= 1
        if s > n as u32 + 1 {
            m = 0;
            exact = false;
            up = false;
        } else {
            let kept = if s >= 128 { 0 } else { mag >> s };
            let guard = if s - 1 >= 128 { false } else { (mag >> (s - 1)) & 1 == 1 };
            let below_mask = if s - 1 >= 128 { u128::MAX } else { (1u128 << (s - 1)) - 1 };
            let sticky = mag & below_mask != 0;
            exact = !guard && !sticky;
            up = guard && (sticky || (kept & 1 == 1));
            m = kept + up as u128;
        }
    }
    // renormalize a carry out of the mantissa
    if m == (1u128 << p) {
        m = 1u128 << (p - 1);
        q += 1;
    }
    let hidden = 1u128 << (p - 1);
    let max_field = (1u64 << eb) - 1;
    if m < hidden {
        // subnormal or zero (q == emin necessarily)
        (m as u64, exact, up)
    } else {
        let field = (q - emin + 1) as i64;
        if field >= max_field as i64 {
            // overflow to infinity
            ((max_field) << (p - 1), false, true)
        } else {
            (((field as u64) << (p - 1)) | ((m - hidden) as u64), exact, up)
        }
    }
}

fn sign_of(neg: bool) -> Sign {
    if neg {
        Sign::Negative
    } else {
        Sign::Positive
    }
}

/// f32::encode(m, e) for every i32 m and every e in [lo, hi]
pub fn enc_f32(lo: i16, hi: i16) {
    let m: i32 = nd::any();
    let e: i16 = nd::any();
    nd::assume(e >= lo && e <= hi);
    let neg = m < 0;
    let (mag_bits, exact, up) = encode_ref(m.unsigned_abs() as u128, e as i32, 24, -149, 8);
    let want = mag_bits as u32 | ((neg as u32) << 31);
    match f32::encode(m, e) {
        Approximation::Exact(v) => {
            assert!(exact, "flagged Exact but a non-zero part was discarded");
            assert!(v.to_bits() == want, "wrong value (exact case)");
        }
        Approximation::Inexact(v, s) => {
            assert!(!exact, "flagged Inexact although representable");
            assert!(v.to_bits() == want, "not the nearest-even neighbour");
            // error sign = sign(result - true value)
            let res_gt = up != neg;
            assert!(s == sign_of(!res_gt), "wrong error sign");
        }
    }
}

/// f64::encode(m, e) for every i64 m and every e in [lo, hi]
pub fn enc_f64(lo: i16, hi: i16) {
    let m: i64 = nd::any();
    let e: i16 = nd::any();
    nd::assume(e >= lo && e <= hi);
    let neg = m < 0;
    let (mag_bits, exact, up) = encode_ref(m.unsigned_abs() as u128, e as i32, 53, -1074, 11);
    let want = mag_bits | ((neg as u64) << 63);
    match f64::encode(m, e) {
        Approximation::Exact(v) => {
            assert!(exact, "flagged Exact but a non-zero part was discarded");
            assert!(v.to_bits() == want, "wrong value (exact case)");
        }
        Approximation::Inexact(v, s) => {
            assert!(!exact, "flagged Inexact although representable");
            assert!(v.to_bits() == want, "not the nearest-even neighbour");
            let res_gt = up != neg;
            assert!(s == sign_of(!res_gt), "wrong error sign");
        }
    }
}

/// decode of every finite f32 bit pattern gives (m, e) with m*2^e == value, and encode(decode(x)) == Exact(x);
/// NaN / infinity are refused.
pub fn dec_f32() {
    let bits: u32 = nd::any();
    let x = f32::from_bits(bits);
    let expf = (bits >> 23) & 0xff;
    match x.decode() {
        Err(_) => assert!(expf == 0xff),
        Ok((m, e)) => {
            assert!(expf != 0xff);
            let neg = bits >> 31 == 1;
            // the reference encoder maps (m, e) back to the same bits exactly
            let (mag_bits, exact, _) = encode_ref(m.unsigned_abs() as u128, e as i32, 24, -149, 8);
            assert!(exact && mag_bits as u32 == (bits & 0x7fff_ffff));
            assert!(m == 0 || (m < 0) == neg);
            match f32::encode(m, e) {
                Approximation::Exact(v) => {
                    // -0.0 decodes to (0, _) and encodes to +0.0: the only lossy pattern
                    assert!(v.to_bits() == bits || (bits == 0x8000_0000 && v.to_bits() == 0))
                }
                Approximation::Inexact(_, _) => panic!("round trip reported inexact"),
            }
        }
    }
}

pub fn dec_f64() {
    let bits: u64 = nd::any();
    let x = f64::from_bits(bits);
    let expf = (bits >> 52) & 0x7ff;
    match x.decode() {
        Err(_) => assert!(expf == 0x7ff),
        Ok((m, e)) => {
            assert!(expf != 0x7ff);
            let neg = bits >> 63 == 1;
            let (mag_bits, exact, _) = encode_ref(m.unsigned_abs() as u128, e as i32, 53, -1074, 11);
            assert!(exact && mag_bits == (bits & 0x7fff_ffff_ffff_ffff));
            assert!(m == 0 || (m < 0) == neg);
            match f64::encode(m, e) {
                Approximation::Exact(v) => {
                    assert!(v.to_bits() == bits || (bits == 1u64 << 63 && v.to_bits() == 0))
                }
                Approximation::Inexact(_, _) => panic!("round trip reported inexact"),
            }
        }
    }
}

/// cross-validation of the reference model itself against the compiler's int->float cast
/// (round to nearest even by definition): encode_ref(m, 0) == (m as f32).to_bits()
pub fn ref_vs_cast_f32() {
    let m: i32 = nd::any();
    let (mag_bits, _, _) = encode_ref(m.unsigned_abs() as u128, 0, 24, -149, 8);
    let want = (m as f32).to_bits();
    assert!((mag_bits as u32 | (((m < 0) as u32) << 31)) == want);
}
pub fn ref_vs_cast_f64() {
    let m: i64 = nd::any();
    let (mag_bits, _, _) = encode_ref(m.unsigned_abs() as u128, 0, 53, -1074, 11);
    let want = (m as f64).to_bits();
    assert!((mag_bits | (((m < 0) as u64) << 63)) == want);
}
