//! C02: division identity a = q*b + r with the documented conventions.
//! Oracle: the defining identity (schoolbook product + add, range of r), never a second divider.
use crate::nd;
use crate::oracle;
use crate::shapes::*;
use core::cmp::Ordering;
use dashu_int::fast_div::ConstDivisor;
use dashu_int::ops::{DivEuclid, DivRem, DivRemAssign, DivRemEuclid, RemEuclid};
use dashu_int::verif::{self, div as kdiv};
use dashu_int::{DoubleWord, IBig, Sign, UBig, Word};

type DW = DoubleWord;
const WB: u32 = Word::BITS;

/// a symbolic value constrained to equal `v` (defeats constant folding, see const_div)
pub fn pin<const N: usize>(v: [Word; N]) -> [Word; N] {
    let x: [Word; N] = nd::any();
    let mut i = 0;
    while i < N {
        nd::assume(x[i] == v[i]);
        i += 1;
    }
    x
}

fn to_arr<const M: usize>(w: &[Word]) -> [Word; M] {
    assert!(w.len() <= M);
    let mut a = [0 as Word; M];
    let mut i = 0;
    while i < w.len() {
        a[i] = w[i];
        i += 1;
    }
    a
}

/// q*b + r == a  and  r < b   (all magnitudes; P >= len(q)+len(b))
fn identity<const P: usize>(a: &[Word], q: &[Word], b: &[Word], r: &[Word]) -> bool {
    let mut p = [0 as Word; P];
    // oracle::mul wants the longer operand first only for its carry placement: any order is fine
    oracle::mul(q, b, &mut p[..q.len() + b.len()]);
    let mut s = [0 as Word; P];
    let carry = oracle::add(&p, r, &mut s);
    !carry && oracle::cmp(&s, a) == Ordering::Equal && oracle::cmp(r, b) == Ordering::Less
}

// ------------------------------------------------------------------ kernels: divisor concrete, dividend symbolic

/// div_by_word_in_place / rem_by_word with a concrete single-word divisor, all dividends of N words
pub fn k_div_word<const N: usize, const P: usize>(d: Word, full: bool) {
    let a0: [Word; N] = if full { nd::any() } else { smag::<N>(5) };
    let mut a: Box<[Word; N]> = Box::new(a0);
    let r = kdiv::div_by_word_in_place(&mut a[..], d);
    let q: [Word; N] = *a;
    if d != 1 {
        assert!(identity::<P>(&a0, &q, &[d], &[r]));
        assert!(kdiv::rem_by_word(&a0, d) == r);
    }
}

/// the power-of-two shortcut with a symbolic exponent (pure shifts): all dividends, all 2^k
pub fn k_div_word_pow2<const N: usize>() {
    let a0: [Word; N] = nd::any();
    let mut a: Box<[Word; N]> = Box::new(a0);
    let k: u32 = nd::any();
    nd::assume(k >= 1 && k < WB);
    let d = (1 as Word) << k;
    let r = kdiv::div_by_word_in_place(&mut a[..], d);
    // q = a >> k, r = a mod 2^k
    assert!(r == a0[0] & (d - 1));
    assert!(kdiv::rem_by_word(&a0, d) == r);
    let mut i = 0;
    while i < N {
        let hi = if i + 1 < N { a0[i + 1] } else { 0 };
        assert!(a[i] == (a0[i] >> k) | (hi << (WB - k)));
        i += 1;
    }
}

/// div_by_dword_in_place / rem_by_dword with a concrete double-word divisor (dhi != 0)
pub fn k_div_dword<const N: usize, const P: usize>(dlo: Word, dhi: Word, full: bool) {
    let a0: [Word; N] = if full { nd::any() } else { smag::<N>(5) };
    let mut a: Box<[Word; N]> = Box::new(a0);
    let d = verif::primitive::double_word(dlo, dhi);
    let r = kdiv::div_by_dword_in_place(&mut a[..], d);
    let (rlo, rhi) = verif::primitive::split_dword(r);
    let q: [Word; N] = *a;
    assert!(identity::<P>(&a0, &q, &[dlo, dhi], &[rlo, rhi]));
    assert!(kdiv::rem_by_dword(&a0, d) == r);
}

/// double-word powers of two 2^(W+k), k symbolic: pure shifts
pub fn k_div_dword_pow2<const N: usize>() {
    let a0: [Word; N] = nd::any();
    let mut a: Box<[Word; N]> = Box::new(a0);
    let k: u32 = nd::any();
    nd::assume(k < WB);
    let d = (1 as DW) << (WB + k);
    let r = kdiv::div_by_dword_in_place(&mut a[..], d);
    let low = verif::primitive::double_word(a0[0], a0[1]);
    assert!(r == low & (d - 1));
    assert!(kdiv::rem_by_dword(&a0, d) == r);
    // quotient = a >> (W + k)
    let mut i = 0;
    while i < N {
        let lo = if i + 1 < N { a0[i + 1] } else { 0 };
        let hi = if i + 2 < N { a0[i + 2] } else { 0 };
        let want = if k == 0 { lo } else { (lo >> k) | (hi << (WB - k)) };
        assert!(a[i] == want);
        i += 1;
    }
}

// ------------------------------------------------------------------ UBig operators from shapes (structured contents)

/// which: 0 `/`, 1 `%`, 2 div_rem, 3 div_euclid, 4 rem_euclid, 5 div_rem_euclid, 6 div_rem_assign, 7 `/=` + `%=`, 8 is_multiple_of
pub fn div_u<const NA: usize, const NB: usize, const P: usize>(which: u8, form: u8, k: u32, blit: Option<[Word; NB]>) {
    let a: [Word; NA] = smag::<NA>(k);
    // divisor: a literal of the given class (the reciprocal is then a constant) or structured symbolic words
    let b: [Word; NB] = match blit {
        Some(b) => b,
        None => smag::<NB>(k),
    };
    let (x, y) = (ubig(&a), ubig(&b));
    let (q, r): (Option<UBig>, Option<UBig>) = match (which, form) {
        (0, 0) => (Some(x / y), None),
        (0, 1) => (Some(&x / &y), None),
        (0, 2) => (Some(x / &y), None),
        (0, _) => (Some(&x / y), None),
        (1, 0) => (None, Some(x % y)),
        (1, 1) => (None, Some(&x % &y)),
        (1, 2) => (None, Some(x % &y)),
        (1, _) => (None, Some(&x % y)),
        (2, 0) => {
            let (q, r) = x.div_rem(y);
            (Some(q), Some(r))
        }
        (2, 1) => {
            let (q, r) = (&x).div_rem(&y);
            (Some(q), Some(r))
        }
        (2, 2) => {
            let (q, r) = x.div_rem(&y);
            (Some(q), Some(r))
        }
        (2, _) => {
            let (q, r) = (&x).div_rem(y);
            (Some(q), Some(r))
        }
        (3, _) => (Some(x.div_euclid(y)), None),
        (4, _) => (None, Some(x.rem_euclid(y))),
        (5, _) => {
            let (q, r) = x.div_rem_euclid(y);
            (Some(q), Some(r))
        }
        (6, _) => {
            let mut x = x;
            let r = x.div_rem_assign(y);
            (Some(x), Some(r))
        }
        (7, 0) => {
            let mut x = x;
            x /= y;
            (Some(x), None)
        }
        (7, _) => {
            let mut x = x;
            x %= y;
            (None, Some(x))
        }
        _ => {
            let m = x.is_multiple_of(&y);
            let r = &x % &y;
            assert!(m == r.is_zero());
            (None, Some(r))
        }
    };
    // the missing half is supplied by the other real operator (cross-checked by the identity)
    let (xx, yy) = (ubig(&a), ubig(&b));
    let q = match q {
        Some(q) => q,
        None => &xx / &yy,
    };
    let r = match r {
        Some(r) => r,
        None => &xx % &yy,
    };
    assert!(canonical_u(&q) && canonical_u(&r));
    let qa = to_arr::<P>(q.as_words());
    let ra = to_arr::<P>(r.as_words());
    assert!(q.as_words().len() + NB <= P);
    assert!(identity::<P>(&a, &qa[..P - NB], &b, &ra[..NB]));
}

/// division by zero panics for every operator (harness is should_panic; must never return)
pub fn div_u_zero<const NA: usize>(which: u8) {
    let a: [Word; NA] = smag::<NA>(5);
    let x = ubig(&a);
    let z = ubig(&[]);
    match which {
        0 => core::mem::forget(x / z),
        1 => core::mem::forget(x % z),
        2 => core::mem::forget(x.div_rem(z)),
        3 => core::mem::forget(x.div_euclid(z)),
        4 => core::mem::forget(x.rem_euclid(z)),
        5 => core::mem::forget(x.div_rem_euclid(z)),
        6 => core::mem::forget(&x / &z),
        7 => core::mem::forget(&x % &z),
        _ => {
            let mut x = x;
            x /= z;
            core::mem::forget(x)
        }
    }
    cover!(true, "returned");
}

// ------------------------------------------------------------------ IBig conventions from shapes

/// truncating forms: which 0 `/`, 1 `%`, 2 div_rem, 3 div_rem_assign ; sign(r) = sign(a), sign(q) = sa*sb
pub fn div_i_trunc<const NA: usize, const NB: usize, const P: usize>(
    sa: Sign,
    sb: Sign,
    which: u8,
    form: u8,
    k: u32,
    blit: Option<[Word; NB]>,
) {
    let a: [Word; NA] = smag::<NA>(k);
    let b: [Word; NB] = match blit {
        Some(b) => b,
        None => smag::<NB>(k),
    };
    let sa = if NA == 0 { POS } else { sa };
    let (x, y) = (ibig(sa, &a), ibig(sb, &b));
    let (q, r): (IBig, IBig) = match (which, form) {
        (0, 0) => (x / y, ibig(sa, &a) % ibig(sb, &b)),
        (0, 1) => (&x / &y, &x % &y),
        (0, 2) => (x / &y, ibig(sa, &a) % &y),
        (0, _) => (&x / y, &x % ibig(sb, &b)),
        (2, 0) => x.div_rem(y),
        (2, 1) => (&x).div_rem(&y),
        (2, 2) => x.div_rem(&y),
        (2, _) => (&x).div_rem(y),
        (3, _) => {
            let mut x = x;
            let r = x.div_rem_assign(y);
            (x, r)
        }
        _ => {
            let mut q = ibig(sa, &a);
            q /= ibig(sb, &b);
            let mut r = x;
            r %= y;
            (q, r)
        }
    };
    assert!(canonical_i(&q) && canonical_i(&r));
    let (qs, qw) = q.as_sign_words();
    let (rs, rw) = r.as_sign_words();
    let qa = to_arr::<P>(qw);
    let ra = to_arr::<P>(rw);
    assert!(qw.len() + NB <= P);
    assert!(identity::<P>(&a, &qa[..P - NB], &b, &ra[..NB]));
    assert!(qw.is_empty() || qs == (if sa == sb { POS } else { NEG }));
    assert!(rw.is_empty() || rs == sa);
}

// ------------------------------------------------------------------ Euclidean fix-ups (inline-only regime: one-word operands)

/// a, b one word below 2^bits; every Euclidean form of IBig; oracle in i128 by the defining identity
pub fn div_i_euclid_small(sa: Sign, sb: Sign, which: u8, bits: u32) {
    let av: Word = nd::any();
    let bv: Word = nd::any();
    nd::assume(av < (1 << bits) && bv < (1 << bits) && bv != 0);
    let sa = if av == 0 { POS } else { sa };
    let mk = |s: Sign, v: Word| -> IBig {
        if v == 0 {
            ibig(POS, &[])
        } else {
            ibig(s, &[v])
        }
    };
    let (x, y) = (mk(sa, av), mk(sb, bv));
    let ai: i128 = if sa == NEG { -(av as i128) } else { av as i128 };
    let bi: i128 = if sb == NEG { -(bv as i128) } else { bv as i128 };
    let val_i = |v: &IBig| -> i128 {
        let (s, w) = v.as_sign_words();
        assert!(w.len() <= 1);
        let m = if w.is_empty() { 0 } else { w[0] as i128 };
        if s == NEG {
            -m
        } else {
            m
        }
    };
    let val_u = |v: &UBig| -> i128 {
        let w = v.as_words();
        assert!(w.len() <= 1);
        if w.is_empty() {
            0
        } else {
            w[0] as i128
        }
    };
    let (q, r): (i128, i128) = match which {
        0 => {
            let (q, r) = x.div_rem_euclid(y);
            assert!(canonical_i(&q) && canonical_u(&r));
            (val_i(&q), val_u(&r))
        }
        1 => {
            let (q, r) = (&x).div_rem_euclid(&y);
            (val_i(&q), val_u(&r))
        }
        2 => {
            let q = (&x).div_euclid(&y);
            let r = x.rem_euclid(y);
            assert!(canonical_i(&q) && canonical_u(&r));
            (val_i(&q), val_u(&r))
        }
        _ => {
            let q = x.div_euclid(&y);
            let r = (&mk(sa, av)).rem_euclid(y);
            (val_i(&q), val_u(&r))
        }
    };
    assert!(q * bi + r == ai);
    assert!(r >= 0 && r < (bv as i128));
}

/// truncating forms on the same small domain, against the defining identity in i128 (all sign rules)
pub fn div_i_trunc_small(sa: Sign, sb: Sign, bits: u32) {
    let av: Word = nd::any();
    let bv: Word = nd::any();
    nd::assume(av < (1 << bits) && bv < (1 << bits) && bv != 0 && av != 0);
    let (x, y) = (ibig(sa, &[av]), ibig(sb, &[bv]));
    let ai: i128 = if sa == NEG { -(av as i128) } else { av as i128 };
    let bi: i128 = if sb == NEG { -(bv as i128) } else { bv as i128 };
    let (q, r) = (&x).div_rem(&y);
    let val_i = |v: &IBig| -> i128 {
        let (s, w) = v.as_sign_words();
        let m = if w.is_empty() { 0 } else { w[0] as i128 };
        if s == NEG {
            -m
        } else {
            m
        }
    };
    let (q, r) = (val_i(&q), val_i(&r));
    assert!(q * bi + r == ai);
    assert!(r.abs() < bi.abs());
    assert!(r == 0 || (r < 0) == (ai < 0));
    assert!(x.is_multiple_of(&y) == (r == 0));
}

/// ConstDivisor with a literal divisor d on dividends CONSTRUCTED as a = q*d + r (q, r symbolic small,
/// r < 2^rbits <= d): the real operators must return exactly (q, r). Few free bits, every length class.
pub fn const_div_constructed<const ND: usize, const LA: usize, const P: usize>(d: [Word; ND], which: u8, qbits: u32, rbits: u32) {
    let q: Word = nd::any();
    let r: Word = nd::any();
    nd::assume(q < (1 << qbits) && r < (1 << rbits));
    let mut a = [0 as Word; P]; // P = ND + 1
    oracle::mul(&d, &[q], &mut a);
    let mut a2 = [0 as Word; P];
    let carry = oracle::add(&a, &[r], &mut a2);
    nd::assume(!carry);
    // the dividend has exactly LA words (LA is a constant of the harness: the shape stays concrete)
    nd::assume(sig_len(&a2) == LA);
    let mut aw = [0 as Word; LA];
    let mut i = 0;
    while i < LA {
        aw[i] = a2[i];
        i += 1;
    }
    let cd = ConstDivisor::new(ubig(&d));
    let qa = [q];
    let ra = [r];
    match which {
        0 => {
            let got = ubig(&aw) / &cd;
            assert!(canonical_u(&got) && words_eq(got.as_words(), &qa), "wrong quotient through ConstDivisor");
        }
        1 => {
            let got = ubig(&aw) % &cd;
            assert!(canonical_u(&got) && words_eq(got.as_words(), &ra), "wrong remainder through ConstDivisor");
        }
        2 => {
            let (gq, gr) = ubig(&aw).div_rem(&cd);
            assert!(words_eq(gq.as_words(), &qa) && words_eq(gr.as_words(), &ra));
        }
        _ => {
            let (gq, gr) = ubig(&aw).div_rem(ubig(&d));
            assert!(words_eq(gq.as_words(), &qa) && words_eq(gr.as_words(), &ra), "plain div_rem wrong");
        }
    }
    core::mem::forget(cd);
}

/// ConstDivisor with a literal divisor d; the dividend has LITERAL upper words `up[1..]` and a SYMBOLIC low
/// word s < 2^sbits. The expected result comes from constants computed outside (q0, r0 = divmod of the
/// dividend with s = 0): the true quotient is q0 or q0 + 1 depending on whether r0 + s reaches d.
/// The quotient estimate inside the divider only sees literal words; the symbolic word decides the final
/// correction step and the length / canonical form of the results.
pub fn const_div_lowsym<const ND: usize, const LA: usize, const P: usize>(d: [Word; ND], up: [Word; LA], q0: [Word; 2], r0: [Word; ND], which: u8, sbits: u32) {
    let s: Word = nd::any();
    if sbits < WB {
        nd::assume(s < (1 << sbits));
    }
    let mut x = up;
    x[0] = s;
    // expected (q, r)
    let mut t = [0 as Word; P]; // P = ND + 1
    let _ = oracle::add(&r0, &[s], &mut t);
    let mut dd = [0 as Word; P];
    let mut i = 0;
    while i < ND {
        dd[i] = d[i];
        i += 1;
    }
    let wrap = oracle::cmp(&t, &dd) != Ordering::Less;
    let mut r = [0 as Word; P];
    let mut q = [0 as Word; 3];
    if wrap {
        let _ = oracle::sub(&t, &dd, &mut r);
        let _ = oracle::add(&q0, &[1], &mut q);
    } else {
        r = t;
        q[0] = q0[0];
        q[1] = q0[1];
    }
    let cd = ConstDivisor::new(ubig(&d));
    match which {
        0 => {
            let got = ubig(&x) / &cd;
            assert!(canonical_u(&got) && words_eq(got.as_words(), &q), "wrong quotient through ConstDivisor");
        }
        1 => {
            let got = ubig(&x) % &cd;
            assert!(canonical_u(&got) && words_eq(got.as_words(), &r), "wrong remainder through ConstDivisor");
        }
        2 => {
            let (gq, gr) = ubig(&x).div_rem(&cd);
            assert!(canonical_u(&gq) && canonical_u(&gr) && words_eq(gq.as_words(), &q) && words_eq(gr.as_words(), &r), "wrong div_rem through ConstDivisor");
        }
        3 => {
            let got = &ubig(&x) % &cd;
            assert!(canonical_u(&got) && words_eq(got.as_words(), &r), "wrong remainder (by reference) through ConstDivisor");
        }
        _ => {
            let (gq, gr) = ubig(&x).div_rem(ubig(&d));
            assert!(canonical_u(&gq) && canonical_u(&gr) && words_eq(gq.as_words(), &q) && words_eq(gr.as_words(), &r), "plain div_rem wrong");
        }
    }
    core::mem::forget(cd);
}

// ------------------------------------------------------------------ ConstDivisor agrees with plain division

/// divisor concrete (words given), dividend structured: `/ % div_rem` through ConstDivisor == plain operators
pub fn const_div<const NA: usize, const ND: usize>(d: [Word; ND], which: u8, k: u32) {
    // the divisor must be a literal: a symbolic (even pinned) divisor makes the normalisation shift and
    // the reciprocal symbolic and CBMC runs out of memory; some literals (2^W-1, ...) crash CBMC 6.11
    // with SIGFPE while it constant-folds the reciprocal, those are avoided in the table
    let a: [Word; NA] = smag::<NA>(k);
    let cd = ConstDivisor::new(ubig(&d));
    let (q0, r0) = ubig(&a).div_rem(ubig(&d));
    match which {
        0 => {
            let q = ubig(&a) / &cd;
            assert!(canonical_u(&q) && words_eq(q.as_words(), q0.as_words()));
        }
        1 => {
            let r = ubig(&a) % &cd;
            assert!(canonical_u(&r) && words_eq(r.as_words(), r0.as_words()));
        }
        2 => {
            let r = &ubig(&a) % &cd;
            assert!(canonical_u(&r) && words_eq(r.as_words(), r0.as_words()));
        }
        _ => {
            let (q, r) = ubig(&a).div_rem(&cd);
            assert!(canonical_u(&q) && words_eq(q.as_words(), q0.as_words()));
            assert!(canonical_u(&r) && words_eq(r.as_words(), r0.as_words()));
        }
    }
    let v = cd.value();
    assert!(words_eq(v.as_words(), &d));
    core::mem::forget(cd);
}

