//! Environment stubs (`#[kani::stub]`, -Z stubbing). Each one is part of the claim of the harnesses that use it.
use std::alloc::{alloc, dealloc, Layout};

/// `std::alloc::realloc` as "allocate, copy word by word, free". Kani's built-in model copies the bytes with
/// an array-copy primitive after which CBMC no longer treats the copied words as the constants they are; a
/// `ConstDivisor` keeps its normalised divisor in a buffer that went through `realloc` (`into_boxed_slice`),
/// and every division by it then reasons about an unknown divisor. The contract kept: the new block has the
/// requested size and alignment, holds the old contents up to the smaller size, and the old block is freed.
pub unsafe fn realloc_words(ptr: *mut u8, layout: Layout, new_size: usize) -> *mut u8 {
    let new_layout = Layout::from_size_align_unchecked(new_size, layout.align());
    let new = alloc(new_layout);
    let n = if layout.size() < new_size { layout.size() } else { new_size };
    if layout.align() >= 8 && n % 8 == 0 {
        let (s, d) = (ptr as *const u64, new as *mut u64);
        let mut i = 0;
        while i < n / 8 {
            *d.add(i) = *s.add(i);
            i += 1;
        }
    } else {
        let mut i = 0;
        while i < n {
            *new.add(i) = *ptr.add(i);
            i += 1;
        }
    }
    dealloc(ptr, layout);
    new
}
