"""Harness table: which generic harness body is instantiated with which concrete shape / sign /
form / configuration, and which property and tier each instance serves.  /verif/check turns every
entry into one #[kani::proof] (gen.rs) over the real crates."""

SIGN = {"p": "POS", "n": "NEG"}
T = []
_names = set()


REALLOC = (("std::alloc::realloc", "crate::stubs::realloc_words"),)


def H(name, call, props, cfg="w64", kind="pass", unwind=8, bound="", finding=None, stubs=(), pin=False):
    """props: dict property -> 'quick'|'thorough'"""
    full = name if cfg == "w64" else "%s_%s" % (name, cfg)
    key = (full, cfg)
    assert key not in _names, key
    _names.add(key)
    T.append({"name": full, "call": call, "props": dict(props), "cfg": cfg, "kind": kind,
              "unwind": unwind, "bound": bound, "finding": finding, "stubs": list(stubs), "pin": pin})


def Q(*ps):
    return {p: "quick" for p in ps}


def TH(*ps):
    return {p: "thorough" for p in ps}


def mix(quick=(), thorough=()):
    d = {p: "thorough" for p in thorough}
    d.update({p: "quick" for p in quick})
    return d


def add_family():
    # kernels: fully symbolic words, symbolic rhs length
    for cfg in ("w64", "w32"):
        pr = mix(quick=("C01", "C19") if cfg == "w32" else ("C01",), thorough=("C16",))
        b = "kernel add.rs on [Word;4], all word contents, rhs length 0..=4"
        H("k_add_in_place_4", "h_add::k_add_in_place::<4>(false)", pr, cfg, unwind=6, bound=b)
        H("k_sub_in_place_4", "h_add::k_add_in_place::<4>(true)", pr, cfg, unwind=6, bound=b)
        for w, nm in enumerate(("add_same_len", "sub_same_len", "sub_same_len_swap")):
            H("k_%s_4" % nm, "h_add::k_same_len::<4>(%d)" % w, pr, cfg, unwind=6, bound=b)
        for w, nm in enumerate(("add_one", "sub_one", "add_word", "sub_word", "add_dword", "sub_dword")):
            H("k_%s_4" % nm, "h_add::k_small::<4>(%d)" % w, pr, cfg, unwind=6, bound=b)
        H("k_sub_with_sign_3", "h_add::k_sub_with_sign::<3>()", pr, cfg, unwind=5, bound=b.replace("4", "3"))
        H("k_sub_with_sign_4", "h_add::k_sub_with_sign::<4>()", TH("C01", "C16"), cfg, unwind=6, bound=b)
        H("k_add_signed_pos_4", "h_add::k_add_signed::<4>(POS)", pr, cfg, unwind=6, bound=b)
        H("k_add_signed_neg_4", "h_add::k_add_signed::<4>(NEG)", pr, cfg, unwind=6, bound=b)

    # IBig +/- IBig: one (shape, sign pair, op, form) per harness
    forms = ["vv", "rr", "vr", "rv", "as"]
    k = 0
    for na in range(0, 5):
        for nb in range(0, 5):
            m = max(na, nb) + 1
            for sa in "pn":
                for sb in "pn":
                    if (na == 0 and sa == "n") or (nb == 0 and sb == "n"):
                        continue
                    for op in ("add", "sub"):
                        for f, fn in enumerate(forms):
                            k += 1
                            small = na <= 3 and nb <= 3
                            # quick: every shape<=3 x sign pair x op with one rotating form
                            quick = small and (f == (na * 7 + nb * 3 + (sa == "n") * 2 + (sb == "n") + (op == "sub")) % 5)
                            # plus the mixed-ownership forms on heap operands of different lengths (buffer reuse + swap)
                            if (na, nb) in ((3, 4), (4, 3)) and f in (2, 3) and sa != sb:
                                quick = True
                            props = {}
                            if quick:
                                props = Q("C01", "C15", "C17")
                            else:
                                props = TH("C01", "C15", "C17")
                            b = "IBig%sIBig, operand lengths exactly (%d,%d) words, all word contents" % ("+" if op == "add" else "-", na, nb)
                            H("c01_%s_i_%d%d_%s%s_%s" % (op, na, nb, sa, sb, fn),
                              "h_add::addsub_ibig::<%d,%d,%d>(%s,%s,%d,%s)" % (na, nb, m, SIGN[sa], SIGN[sb], f, "true" if op == "sub" else "false"),
                              props, "w64", unwind=m + 4, bound=b)
                            if small and f == 1:
                                H("c01_%s_i_%d%d_%s%s_%s" % (op, na, nb, sa, sb, fn),
                                  "h_add::addsub_ibig::<%d,%d,%d>(%s,%s,%d,%s)" % (na, nb, m, SIGN[sa], SIGN[sb], f, "true" if op == "sub" else "false"),
                                  mix(quick=("C19",) if (na + nb) % 2 == 0 else (), thorough=("C19", "C01")), "w32", unwind=m + 4, bound=b)
    # witnesses (vacuity guards): the interesting regions are reachable
    H("c01_add_i_cover_carry", "h_add::addsub_ibig_cover::<2,2,3>(POS,POS,0)", Q("C01", "C17"), kind="witness", unwind=7)
    H("c01_add_i_cover_cancel", "h_add::addsub_ibig_cover::<3,3,4>(POS,NEG,1)", Q("C01", "C17"), kind="witness", unwind=8)
    H("c01_add_i_cover_shrink", "h_add::addsub_ibig_cover::<3,3,4>(NEG,POS,2)", Q("C01", "C17"), kind="witness", unwind=8)

    # UBig + UBig, UBig - UBig (with the documented underflow panic)
    for na in range(0, 5):
        for nb in range(0, 5):
            m = max(na, nb) + 1
            for f, fn in enumerate(forms):
                small = na <= 3 and nb <= 3
                quick = small and f == (na + 2 * nb) % 5
                props = Q("C01", "C15", "C17") if quick else TH("C01", "C15", "C17")
                H("c01_add_u_%d%d_%s" % (na, nb, fn), "h_add::add_ubig::<%d,%d,%d>(%d)" % (na, nb, m, f), props,
                  unwind=m + 4, bound="UBig+UBig lengths exactly (%d,%d)" % (na, nb))
                if na >= nb:
                    H("c01_sub_u_%d%d_%s" % (na, nb, fn), "h_add::sub_ubig::<%d,%d>(%d)" % (na, nb, f), props,
                      unwind=m + 4, bound="UBig-UBig lengths exactly (%d,%d), a>=b" % (na, nb))
                if nb >= na and nb > 0:
                    pp = dict(props)
                    if (na, nb) in ((3, 3), (2, 3)):
                        pp = Q("C01", "C15", "C17")  # every ownership form has its own borrow handling
                    pp["C16"] = "quick" if (quick or (na, nb) == (3, 3)) else "thorough"
                    H("c01_sub_u_underflow_%d%d_%s" % (na, nb, fn), "h_add::sub_ubig_underflow::<%d,%d>(%d)" % (na, nb, f), pp,
                      kind="panic", unwind=m + 4, bound="UBig-UBig lengths exactly (%d,%d), a<b must panic" % (na, nb))
    # mixed UBig/IBig forms
    for na in range(0, 4):
        for nb in range(0, 4):
            m = max(na, nb) + 1
            for sb in "pn":
                if nb == 0 and sb == "n":
                    continue
                for w in range(8):
                    quick = w == (na * 3 + nb + (sb == "n")) % 8
                    props = Q("C15", "C01") if quick else TH("C15", "C01")
                    H("c15_addsub_mixed_%d%d_%s_%d" % (na, nb, sb, w), "h_add::addsub_mixed::<%d,%d,%d>(%s,%d)" % (na, nb, m, SIGN[sb], w),
                      props, unwind=m + 4, bound="UBig(len %d) op IBig(len %d) mixed forms" % (na, nb))


def enc_family():
    b32 = "f32::encode: every i32 mantissa, exponent window [%d,%d]"
    for i, (lo, hi) in enumerate([(-400, -181), (-180, -140), (-139, -100), (-99, 80), (81, 140), (141, 400)]):
        H("c06_enc_f32_%d" % i, "h_enc::enc_f32(%d,%d)" % (lo, hi), mix(quick=("C06",), thorough=("C16",)), unwind=2, bound=b32 % (lo, hi))
    b64 = "f64::encode: every i64 mantissa, exponent window [%d,%d]"
    for i, (lo, hi) in enumerate([(-1400, -1139), (-1138, -1100), (-1099, -1060), (-1059, -1000), (-999, 900), (901, 1030), (1031, 1400)]):
        H("c06_enc_f64_%d" % i, "h_enc::enc_f64(%d,%d)" % (lo, hi), mix(quick=("C06",), thorough=("C16",)), unwind=2, bound=b64 % (lo, hi))
    H("c06_dec_f32", "h_enc::dec_f32()", Q("C06"), unwind=2, bound="all 2^32 f32 bit patterns")
    H("c06_dec_f64", "h_enc::dec_f64()", Q("C06"), unwind=2, bound="all 2^64 f64 bit patterns")
    H("c06_ref_vs_cast_f32", "h_enc::ref_vs_cast_f32()", Q("C06"), unwind=2, bound="oracle validation: all i32 vs `as f32`")
    H("c06_ref_vs_cast_f64", "h_enc::ref_vs_cast_f64()", Q("C06"), unwind=2, bound="oracle validation: all i64 vs `as f64`")


FORMS5 = ["vv", "rr", "vr", "rv", "as"]
FORMS3 = ["v", "r", "as"]
OPS = ["and", "or", "xor"]


def bits_family():
    for cfg in ("w64", "w32"):
        pr = mix(quick=("C09", "C19") if cfg == "w32" else ("C09",), thorough=("C16",))
        H("k_shl_4", "h_bits::k_shl::<4>()", pr, cfg, unwind=10, bound="shift::shl_in_place on 4 words, all contents, shift 0..W-1")
        H("k_shr_4", "h_bits::k_shr::<4>()", pr, cfg, unwind=10, bound="shift::shr_in_place on 4 words, all contents, shift 0..=W")
    # UBig & | ^
    for na in range(0, 5):
        for nb in range(0, 5):
            m = max(na, nb) + 1
            for op in range(3):
                for f in range(5):
                    quick = na <= 3 and nb <= 3 and f == (na + nb * 2 + op) % 5 and (na >= nb or op == 0)
                    pr = Q("C09", "C15", "C17") if quick else TH("C09", "C15", "C17")
                    H("c09_%s_u_%d%d_%s" % (OPS[op], na, nb, FORMS5[f]), "h_bits::bitop_u::<%d,%d,%d>(%d,%d)" % (na, nb, m, op, f), pr,
                      unwind=m + 4, bound="UBig %s UBig, lengths exactly (%d,%d)" % (OPS[op], na, nb))
    # IBig & | ^ (sign fix-ups): chains of operations on intermediate results -> inline-only regime for <= 2 words
    for na in range(0, 4):
        for nb in range(0, 4):
            m = max(na, nb) + 1
            for sa in "pn":
                for sb in "pn":
                    if (na == 0 and sa == "n") or (nb == 0 and sb == "n"):
                        continue
                    anyneg = sa == "n" or sb == "n"
                    for op in range(3):
                        for f in range(5):
                            rot = f == (na + nb * 2 + op + (sa == "n") + 2 * (sb == "n")) % 5
                            name = "c09_%s_i_%d%d_%s%s_%s" % (OPS[op], na, nb, sa, sb, FORMS5[f])
                            b = "IBig %s IBig, lengths exactly (%d,%d), signs %s%s, two's complement oracle" % (OPS[op], na, nb, sa, sb)
                            if not anyneg:
                                quick = rot and (na, nb) in ((1, 1), (2, 2), (2, 1), (3, 2), (3, 3), (0, 2))
                                H(name, "h_bits::bitop_i::<%d,%d,%d>(%s,%s,%d,%d,false)" % (na, nb, m, SIGN[sa], SIGN[sb], op, f),
                                  Q("C09", "C15") if quick else TH("C09", "C15"), unwind=m + 4, bound=b)
                            elif na <= 2 and nb <= 2:
                                quick = rot
                                H(name, "h_bits::bitop_i::<%d,%d,%d>(%s,%s,%d,%d,true)" % (na, nb, m, SIGN[sa], SIGN[sb], op, f),
                                  Q("C09", "C15") if quick else TH("C09", "C15"), "i64", unwind=m + 4, bound=b + ", inline-only regime (|x|,|y| < 2^(2W-1))")
                                if rot and (na, nb) in ((1, 1), (2, 1), (2, 2)):
                                    H(name, "h_bits::bitop_i::<%d,%d,%d>(%s,%s,%d,%d,true)" % (na, nb, m, SIGN[sa], SIGN[sb], op, f),
                                      TH("C09", "C19"), "i32", unwind=m + 4, bound=b + ", inline-only regime, 32-bit words")
                            else:
                                if rot:
                                    H(name, "h_bits::bitop_i::<%d,%d,%d>(%s,%s,%d,%d,false)" % (na, nb, m, SIGN[sa], SIGN[sb], op, f),
                                      TH("C09"), unwind=m + 4, bound=b + " (3-word operands: may be undecided)")
    for n in range(0, 4):
        for s in "pn":
            if n == 0 and s == "n":
                continue
            for r in (0, 1):
                if n <= 2:
                    H("c09_not_i_%d_%s_%s" % (n, s, "rv"[r]), "h_bits::not_i::<%d,%d>(%s,%s,true)" % (n, n + 1, SIGN[s], "true" if r == 0 else "false"),
                      Q("C09") if r == (n % 2) else TH("C09"), "i64", unwind=n + 5, bound="!IBig, length exactly %d, inline-only regime" % n)
                else:
                    H("c09_not_i_%d_%s_%s" % (n, s, "rv"[r]), "h_bits::not_i::<%d,%d>(%s,%s,false)" % (n, n + 1, SIGN[s], "true" if r == 0 else "false"),
                      TH("C09"), unwind=n + 5, bound="!IBig, length exactly %d" % n)
    # shifts: amount concrete per harness
    for cfg, W in (("w64", 64), ("w32", 32)):
        KS = [0, 1, W - 1, W, W + 1, 2 * W - 1, 2 * W, 2 * W + 1, 3 * W, 3 * W + 5]
        for n in range(0, 4):
            for ki, k in enumerate(KS):
                for f in range(3):
                    q = f == (n + ki) % 3
                    if cfg == "w32":
                        pr = mix(quick=("C19",) if (q and n == 2) else (), thorough=("C09", "C19"))
                    else:
                        pr = Q("C09", "C15") if q else TH("C09", "C15")
                    m = n + k // W + 2
                    H("c09_shl_u_%d_k%d_%s" % (n, k, FORMS3[f]), "h_bits::shl_u::<%d,%d>(%d,%d)" % (n, m, k, f), pr, cfg,
                      unwind=m + 4, bound="UBig(len %d) << %d" % (n, k))
                    H("c09_shr_u_%d_k%d_%s" % (n, k, FORMS3[f]), "h_bits::shr_u::<%d,%d>(%d,%d)" % (n, n + 1, k, f), pr, cfg,
                      unwind=n + 6, bound="UBig(len %d) >> %d" % (n, k))
                    for s in "pn":
                        if n == 0:
                            continue
                        if s == "n" and n <= 2:
                            icfg = "i64" if cfg == "w64" else "i32"
                            H("c09_shr_i_%d_%s_k%d_%s" % (n, s, k, FORMS3[f]), "h_bits::shr_i::<%d,%d>(%s,%d,%d)" % (n, n + 1, SIGN[s], k, f), pr, icfg,
                              unwind=n + 6, bound="IBig(len %d, negative) >> %d (floor), inline-only regime" % (n, k))
                        else:
                            H("c09_shr_i_%d_%s_k%d_%s" % (n, s, k, FORMS3[f]), "h_bits::shr_i::<%d,%d>(%s,%d,%d)" % (n, n + 1, SIGN[s], k, f),
                              pr if s == "p" else (TH("C09") if cfg == "w64" else TH("C19")), cfg,
                              unwind=n + 6, bound="IBig(len %d, %s) >> %d (floor)" % (n, s, k))
                        if s == "n":
                            H("c09_shl_i_%d_%s_k%d_%s" % (n, s, k, FORMS3[f]), "h_bits::shl_i::<%d,%d>(%s,%d,%d)" % (n, m, SIGN[s], k, f),
                              pr if cfg == "w32" else TH("C09", "C15"), cfg, unwind=m + 4, bound="IBig(len %d, %s) << %d" % (n, s, k))
    # queries with symbolic bit index
    for cfg in ("w64", "w32"):
        for n in range(0, 5):
            for w, nm in enumerate(("bit", "bit_len", "tz", "to", "count", "pow2")):
                pr = Q("C09") if (cfg == "w64" and n <= 3) else TH("C09", "C19")
                H("c09_q_u_%s_%d" % (nm, n), "h_bits::query_u::<%d,%d>(%d)" % (n, n + 1, w), pr, cfg, unwind=n + 5,
                  bound="UBig::%s, length exactly %d, bit index symbolic" % (nm, n))
            for s in "pn":
                if n == 0 and s == "n":
                    continue
                for w, nm in ((0, "bit"), (2, "tz"), (3, "to")):
                    pr = Q("C09") if (cfg == "w64" and n <= 3) else TH("C09", "C19")
                    H("c09_q_i_%s_%d_%s" % (nm, n, s), "h_bits::query_i::<%d,%d>(%s,%d)" % (n, n + 1, SIGN[s], w), pr, cfg, unwind=n + 5,
                      bound="IBig::%s, length exactly %d (%s), bit index symbolic" % (nm, n, s))
    # single-bit updates, split, ones
    W = 64
    NS = [0, 1, W - 1, W, W + 1, 2 * W - 1, 2 * W, 2 * W + 1, 3 * W - 1, 3 * W, 4 * W + 3]
    for n in range(0, 4):
        for bi, b in enumerate(NS):
            m = max(n, b // W + 1) + 1
            q = (n + bi) % 2 == 0
            H("c09_set_bit_%d_b%d" % (n, b), "h_bits::setclr_u::<%d,%d>(%d,false)" % (n, m, b), Q("C09", "C17") if q else TH("C09", "C17"), unwind=m + 4, bound="UBig(len %d).set_bit(%d)" % (n, b))
            H("c09_clear_bit_%d_b%d" % (n, b), "h_bits::setclr_u::<%d,%d>(%d,true)" % (n, m, b), Q("C09", "C17") if not q else TH("C09", "C17"), unwind=m + 4, bound="UBig(len %d).clear_bit(%d)" % (n, b))
            H("c09_split_bits_%d_b%d" % (n, b), "h_bits::split_u::<%d,%d>(%d,0)" % (n, n + 1, b), Q("C09", "C17") if q else TH("C09", "C17"), unwind=n + 6, bound="UBig(len %d).split_bits(%d)" % (n, b))
            H("c09_clear_high_%d_b%d" % (n, b), "h_bits::split_u::<%d,%d>(%d,1)" % (n, n + 1, b), Q("C09", "C17") if not q else TH("C09", "C17"), unwind=n + 6, bound="UBig(len %d).clear_high_bits(%d)" % (n, b))
    for n in range(0, 5):
        H("c09_next_pow2_%d" % n, "h_bits::next_pow2_u::<%d,%d>()" % (n, n + 1), Q("C09", "C17") if n <= 2 else TH("C09", "C17"), unwind=n + 6, bound="UBig(len %d).next_power_of_two()" % n)
    for b in sorted(set(list(range(0, 4)) + [W - 1, W, W + 1, 2 * W - 1, 2 * W, 2 * W + 1, 3 * W - 1, 3 * W, 3 * W + 1, 4 * W, 4 * W + 1])):
        H("c09_ones_%d" % b, "h_bits::ones_u::<%d>(%d)" % (b // W + 1, b), Q("C09", "C05", "C17"), unwind=b // W + 6, bound="UBig::ones(%d) value and canonical layout" % b)
    for b in (0, 1, 31, 32, 33, 63, 64, 65, 96, 97):
        H("c09_ones_%d" % b, "h_bits::ones_u::<%d>(%d)" % (b // 32 + 1, b), mix(quick=("C19",), thorough=("C09", "C05")), "w32", unwind=b // 32 + 6, bound="UBig::ones(%d) (32-bit words)" % b)


def cmp_family():
    CV = "dtm"  # capacity variants: default, tight, max-compact
    for na in range(0, 5):
        for nb in range(0, 5):
            un = 8 * max(na, nb) + 4  # slice == is a bytewise memcmp loop
            k = 0
            for sa in "pn":
                for sb in "pn":
                    if (na == 0 and sa == "n") or (nb == 0 and sb == "n"):
                        continue
                    for ca in range(3):
                        for cb in range(3):
                            if (na < 3 and ca) or (nb < 3 and cb):
                                continue
                            k += 1
                            quick = na <= 3 and nb <= 3 and (ca + cb) in (0, 3)
                            H("c05_cmp_i_%d%d_%s%s_%s%s" % (na, nb, sa, sb, CV[ca], CV[cb]),
                              "h_cmp::cmp_i::<%d,%d>(%s,%s,%d,%d)" % (na, nb, SIGN[sa], SIGN[sb], ca, cb),
                              Q("C05") if quick else TH("C05"), unwind=un,
                              bound="IBig cmp/==/abs_cmp, lengths exactly (%d,%d), capacity variants" % (na, nb))
            for ca in range(3):
                for cb in range(3):
                    if (na < 3 and ca) or (nb < 3 and cb):
                        continue
                    quick = na <= 3 and nb <= 3 and (ca + cb) in (0, 2)
                    H("c05_cmp_u_%d%d_%s%s" % (na, nb, CV[ca], CV[cb]), "h_cmp::cmp_u::<%d,%d>(%d,%d)" % (na, nb, ca, cb),
                      Q("C05", "C14") if quick else TH("C05", "C14"), unwind=un, bound="UBig cmp/==/AbsOrd mixed, lengths exactly (%d,%d)" % (na, nb))
    for cfg in ("w64", "w32"):
        for n in range(0, 4):
            for s in "pn":
                if n == 0 and s == "n":
                    continue
                for ca, cb in ((0, 0), (1, 2)):
                    if n < 3 and (ca or cb):
                        continue
                    H("c05_hash_i_%d_%s_%s%s" % (n, s, CV[ca], CV[cb]), "h_cmp::hash_i::<%d>(%s,%d,%d)" % (n, SIGN[s], ca, cb),
                      (Q("C05") if cfg == "w64" else mix(quick=("C19",), thorough=("C05",))), cfg, unwind=8 * n + 20,
                      bound="IBig Hash byte stream, length exactly %d" % n)
            H("c05_hash_u_vs_i_%d" % n, "h_cmp::hash_u_vs_i::<%d>()" % n, Q("C05") if cfg == "w64" else TH("C05", "C19"), cfg, unwind=8 * n + 20)
    for n in range(0, 6):
        H("c05_from_words_%d" % n, "h_cmp::from_words::<%d>()" % n, Q("C05", "C17") if n <= 4 else TH("C05", "C17"), unwind=n + 5,
          bound="UBig::from_words of %d arbitrary words (leading zeros allowed)" % n)
        H("c05_from_words_%d" % n, "h_cmp::from_words::<%d>()" % n, mix(quick=("C19",) if n in (2, 3) else (), thorough=("C05", "C17", "C19")), "w32", unwind=n + 5)
    for n in range(0, 5):
        for s in "pn":
            if n == 0 and s == "n":
                continue
            for c in range(3):
                if n < 3 and c:
                    continue
                H("c15_clone_i_%d_%s_%s" % (n, s, CV[c]), "h_cmp::clone_i::<%d>(%s,%d)" % (n, SIGN[s], c),
                  Q("C15", "C17", "C05") if n <= 3 else TH("C15", "C17", "C05"), unwind=n + 5, bound="IBig::clone, length exactly %d" % n)
    for na in range(0, 5):
        for nb in range(0, 5):
            for ca in range(3):
                for cb in range(3):
                    if (na < 3 and ca) or (nb < 3 and cb):
                        continue
                    for sa, sb in (("p", "n"), ("n", "p"), ("n", "n")):
                        if (na == 0 and sa == "n") or (nb == 0 and sb == "n"):
                            continue
                        quick = na <= 4 and nb <= 4 and ((ca, cb) in ((0, 0), (2, 1), (1, 2))) and (sa, sb) == (("p", "n") if (na + nb) % 2 == 0 or na == 0 else ("n", "p") if nb else ("n", "p"))
                        H("c15_clone_from_i_%d%d_%s%s_%s%s" % (na, nb, sa, sb, CV[ca], CV[cb]),
                          "h_cmp::clone_from_i::<%d,%d>(%s,%s,%d,%d)" % (na, nb, SIGN[sa], SIGN[sb], ca, cb),
                          Q("C15", "C17", "C05") if quick else TH("C15", "C17", "C05"), unwind=max(na, nb) + 5,
                          bound="IBig::clone_from, lengths (%d <- %d), capacity variants" % (na, nb))
                    H("c15_clone_from_u_%d%d_%s%s" % (na, nb, CV[ca], CV[cb]), "h_cmp::clone_from_u::<%d,%d>(%d,%d)" % (na, nb, ca, cb),
                      Q("C17") if (ca, cb) == (0, 0) and na <= 3 and nb <= 3 else TH("C15", "C17"), unwind=max(na, nb) + 5)
    for n in range(0, 4):
        for s in "pn":
            for w in range(11):
                if n == 0 and s == "n" and w not in (0,):
                    continue
                H("c05_parts_i_%d_%s_%d" % (n, s, w), "h_cmp::parts_i::<%d>(%s,%d)" % (n, SIGN[s], w), Q("C05", "C17") if (n + w) % 2 == 0 or n == 3 else TH("C05", "C17"),
                  unwind=n + 5, bound="sign plumbing (from_parts/into_parts/neg/abs/signum...), length exactly %d" % n)
            H("c06_try_u_from_i_%d_%s" % (n, s), "h_cmp::try_u_from_i::<%d>(%s)" % (n, SIGN[s]), Q("C06"), unwind=n + 5, bound="TryFrom<IBig> for UBig, length %d" % n)
    H("c05_static_words", "h_cmp::static_words()", Q("C05", "C17"), unwind=30, bound="from_static_words on 0..3 word statics")


def mul_family():
    # Multiplication: a symbolic x symbolic 64-bit product cannot be compared with an oracle product by the SAT
    # solver (time-outs even for 2 words), a symbolic x LITERAL product can. Every harness therefore fixes one
    # operand to a literal of a class (small odd, all ones, top bit, power of two, radix power) and leaves the other
    # operand - and the accumulator - fully symbolic; symbolic x symbolic is kept for one-word operands only.
    def lits(cfg, n):
        W = 64 if cfg.endswith("64") else 32
        M = (1 << W) - 1
        # sparse literals only: dense ones (2^W - 1, 0x5555...) were probed and time out
        L1 = {"l3": [3], "l5": [5], "ltop1": [(1 << (W - 1)) + 1], "lp2": [1 << (W // 2)]}
        L2 = {"l2_31": [3, 1], "l2_p2": [0, 1 << (W // 2)], "l2_top": [1, 1 << (W - 1)], "l2_13": [13, 1]}
        L3 = {"l3_705": [7, 0, 5], "l3_301": [3, 0, 1], "l3_p2": [0, 0, 1 << 7]}
        L4 = {"l4_a": [3, 0, 0, 11]}
        return {1: L1, 2: L2, 3: L3, 4: L4}[n]
    for cfg in ("w64", "w32"):
        pr = mix(quick=("C01", "C19") if cfg == "w32" else ("C01",), thorough=("C16",))
        H("k_mul_add_carry", "h_mul::k_mul_add_carry()", pr, cfg, unwind=2, bound="math::mul_add_carry/2carry, all words")
        for ln, lv in lits(cfg, 1).items():
            for n in (3, 4):
                q = pr if (n == 3 and ln in ("l3", "l5", "ltop1")) else TH("C01", "C19")
                H("k_mul_word_%d_%s" % (n, ln), "h_mul::k_mul_word::<%d>(%d)" % (n, lv[0]), q, cfg, unwind=n + 3, bound="mul_word_in_place_with_carry: %d symbolic words and carry x literal %s" % (n, ln))
                H("k_add_mul_word_%d_%s" % (n, ln), "h_mul::k_add_mul_word::<%d>(%d)" % (n, lv[0]), q, cfg, unwind=n + 3, bound="add_mul_word_same_len_in_place: %d+%d symbolic words x literal %s" % (n, n, ln))
                H("k_sub_mul_word_%d_%s" % (n, ln), "h_mul::k_sub_mul_word::<%d>(%d)" % (n, lv[0]), q, cfg, unwind=n + 3, bound="sub_mul_word_same_len_in_place: %d+%d symbolic words x literal %s" % (n, n, ln))
        for s in "pn":
            for na in (1, 2, 3, 4):
                for nb in (1, 2, 3):
                    if nb > na:
                        continue
                    for ln, lv in lits(cfg, nb).items():
                        q = cfg == "w64" and na <= 3 and ln in ("l3", "ltop1", "l2_31", "l2_p2", "l3_705", "l3_301") and (s == "p" or na == 3)
                        H("k_simple_%d%d_%s_%s" % (na, nb, ln, s), "h_mul::k_simple::<%d,%d,%d>(%s,true,0,Some([%s]))" % (na, nb, na + nb, SIGN[s], ",".join(map(str, lv))),
                          Q("C01") if q else TH("C01", "C19"), cfg, unwind=na + nb + 3, bound="schoolbook c += sign*a*b: a (%d words) and c symbolic, b literal %s" % (na, ln))
            for n in (3, 4):
                for ln, lv in lits(cfg, n).items():
                    H("k_karatsuba_%d_%s_%s" % (n, ln, s), "h_mul::k_karatsuba::<%d,%d>(%s,0,Some([%s]))" % (n, 2 * n, SIGN[s], ",".join(map(str, lv))),
                      Q("C01") if (cfg == "w64" and n == 3 and ln in ("l3_705", "l3_301") and s == "p") else TH("C01", "C19"), cfg, unwind=2 * n + 3,
                      bound="Karatsuba kernel n=%d: a and the accumulator symbolic, b literal %s" % (n, ln))
        for n in (2, 3):
            H("k_sqr_s2_%d" % n, "h_mul::k_sqr::<%d,%d>(false,2)" % (n, 2 * n), TH("C01", "C19"), cfg, unwind=2 * n + 3, bound="sqr %d words, structured (2-bit payload)" % n)
        for n in (2, 3, 4):
            for ln, lv in lits(cfg, 2).items():
                H("k_mul_dword_%d_%s" % (n, ln), "h_mul::k_mul_dword::<%d,%d>(0,Some([%s]))" % (n, n + 2, ",".join(map(str, lv))),
                  Q("C01") if (cfg == "w64" and n == 3 and ln in ("l2_31", "l2_p2")) else TH("C01", "C19"), cfg, unwind=n + 5, bound="mul_dword_in_place: %d symbolic words x literal %s" % (n, ln))
    # operators: first operand symbolic, second literal (either side), every form
    for na in range(0, 4):
        for nb in range(1, 4):
            m = max(na + nb, 1)
            for ln, lv in lits("w64", nb).items():
                ls = ",".join(map(str, lv))
                for f in range(5):
                    for sw in (False, True):
                        quick = f == (na * 2 + nb + sw) % 5 and ln in ("l3", "l5", "l2_31", "l2_p2", "l3_705", "l3_p2") and (not sw or na == 3)
                        H("c01_mul_u_%d_%s_%s%s" % (na, ln, FORMS5[f], "_sw" if sw else ""), "h_mul::mul_u::<%d,%d,%d>(%d,false,0,Some([%s]),%s)" % (na, nb, m, f, ls, "true" if sw else "false"),
                          Q("C01", "C15", "C17") if quick else TH("C01", "C15", "C17"), unwind=m + 5, bound="UBig*UBig: %d symbolic words x literal %s, form %s%s" % (na, ln, FORMS5[f], " (literal on the left)" if sw else ""))
                for sa in "pn":
                    for sb in "pn":
                        if na == 0 and sa == "n":
                            continue
                        f = (na + nb + (sa == "n") + 2 * (sb == "n")) % 5
                        quick = ln in ("l3", "l2_31", "l3_705") and na in (1, 3)
                        H("c01_mul_i_%d_%s_%s%s" % (na, ln, sa, sb), "h_mul::mul_i::<%d,%d,%d>(%s,%s,%d,0,Some([%s]))" % (na, nb, m, SIGN[sa], SIGN[sb], f, ls),
                          Q("C01", "C15") if quick else TH("C01", "C15"), unwind=m + 5, bound="IBig*IBig: %d symbolic words x literal %s, signs %s%s" % (na, ln, sa, sb))
                for sb in "pn":
                    w = (na + nb + (sb == "n")) % 4
                    H("c15_mul_mixed_%d_%s_%s_%d" % (na, ln, sb, w), "h_mul::mul_mixed::<%d,%d,%d>(%s,%d,0,Some([%s]))" % (na, nb, m, SIGN[sb], w, ls),
                      Q("C15") if (ln in ("l3", "l2_31") and na in (2, 3)) else TH("C15", "C01"), unwind=m + 5, bound="UBig*IBig mixed forms: %d symbolic words x literal %s" % (na, ln))
    # symbolic x symbolic: one-word operands only (structured, 5-bit payload)
    for f in range(5):
        H("c01_mul_u_11_%s" % FORMS5[f], "h_mul::mul_u::<1,1,2>(%d,false,5,None,false)" % f, Q("C01", "C15") if f in (0, 4) else TH("C01", "C15"), unwind=7, bound="UBig*UBig one word x one word, structured words")
    for n in (1, 2):
        for w in range(4):
            H("c01_sqr_u_%d_%d" % (n, w), "h_mul::sqr_u::<%d,%d,%d>(%d,2)" % (n, 2 * n, 3 * n, w), Q("C01", "C15") if n == 1 else TH("C01"), unwind=3 * n + 5,
              bound="x*x (equal-operand shortcut) / sqr / cubic, length %d, structured (2-bit payload)" % n)
    for e in range(0, 6):
        H("c01_pow_u_e%d" % e, "h_mul::pow_u::<1>(%d,4,false)" % e, Q("C01") if e in (0, 1, 2, 3) else TH("C01"), unwind=12, bound="UBig::pow, base = p*2^t or 2^t (p<2^4, t<8), exponent %d" % e)
        H("c01_pow_i_e%d" % e, "h_mul::pow_u::<1>(%d,4,true)" % e, Q("C01") if e in (1, 3) else TH("C01"), unwind=12, bound="IBig::pow negative base, exponent %d" % e)


def wconst(cfg, name):
    W = 64 if cfg.endswith("64") else 32
    M = (1 << W) - 1
    return {"3": 3, "10": 10, "max": M, "top": 1 << (W - 1), "top1": (1 << (W - 1)) + 1, "maxm1": M - 1, "one": 1,
            "rad": 10 ** 19 if W == 64 else 10 ** 9, "7": 7}[name]


def div_family():
    for cfg in ("w64", "w32"):
        pr = mix(quick=("C02", "C19") if cfg == "w32" else ("C02",), thorough=("C16",))
        for n in (2, 3, 4):
            H("k_div_word_pow2_%d" % n, "h_div::k_div_word_pow2::<%d>()" % n, pr if n == 3 else TH("C02", "C19"), cfg, unwind=n + 3,
              bound="div_by_word_in_place/rem_by_word, divisor 2^k (k symbolic), all dividends of %d words" % n)
            H("k_div_dword_pow2_%d" % n, "h_div::k_div_dword_pow2::<%d>()" % n, pr if n == 3 else TH("C02", "C19"), cfg, unwind=n + 3,
              bound="div_by_dword_in_place/rem_by_dword, divisor 2^(W+k) (k symbolic), all dividends of %d words" % n)
        for dn in ("one", "3", "10", "max", "top", "top1", "rad"):
            d = wconst(cfg, dn)
            for n, full in ((2, True), (3, False), (4, False)):
                q = cfg == "w64" and ((n == 2) or (n == 3)) and dn in ("3", "max", "top1", "one", "rad")
                H("k_div_word_%s_%d%s" % (dn, n, "f" if full else "s"), "h_div::k_div_word::<%d,%d>(%d,%s)" % (n, n + 1, d, "true" if full else "false"),
                  Q("C02") if q else TH("C02", "C19"), cfg, unwind=n + 5,
                  bound="div_by_word_in_place, concrete divisor %s, dividends of %d words (%s)" % (dn, n, "full width" if full else "structured"))
        for (lo, hi) in (("one", "one"), ("max", "max"), ("3", "top"), ("maxm1", "7"), ("one", "top1")):
            dl, dh = wconst(cfg, lo), wconst(cfg, hi)
            for n in (2, 3, 4):
                q = cfg == "w64" and n == 3 and (lo, hi) in (("max", "max"), ("3", "top"), ("maxm1", "7"))
                H("k_div_dword_%s_%s_%d" % (lo, hi, n), "h_div::k_div_dword::<%d,%d>(%d,%d,false)" % (n, n + 2, dl, dh),
                  Q("C02") if q else TH("C02", "C19"), cfg, unwind=n + 6, bound="div_by_dword_in_place, concrete divisor (%s,%s), structured dividends of %d words" % (lo, hi, n))
    WH = ["div", "rem", "divrem", "div_euclid", "rem_euclid", "divrem_euclid", "divrem_assign", "opassign", "multiple"]
    W = 64
    M = (1 << W) - 1
    # literal divisors per length class (symbolic divisors make the reciprocal computation symbolic: only the smallest shapes finish)
    LITS = {1: {"d3": [3], "dtop5": [(1 << (W - 1)) + 5], "drad": [10 ** 19]},
            2: {"dw_noshift": [5, 1 << (W - 1)], "dw_shift": [9, 7], "dw_pow2": [0, 1 << 9]},
            3: {"lg705": [7, 0, 5], "lgtop": [M, 0, 1 << (W - 1)]},
            4: {"lg4": [3, 0, 0, 11]}}
    for na in range(0, 5):
        for nb in range(1, 5):
            p = max(na, nb) + 1
            for w in range(9):
                nf = 4 if w <= 2 else (2 if w == 7 else 1)
                for f in range(nf):
                    # symbolic divisor: only where the quotient is trivially 0 or both operands are one word
                    if na < nb or (na, nb) == (1, 1):
                        quick = f == (na + nb + w) % nf and (na, nb) in ((1, 1), (1, 3), (0, 2), (2, 3))
                        H("c02_%s_u_%d%d_f%d" % (WH[w], na, nb, f), "h_div::div_u::<%d,%d,%d>(%d,%d,4,None)" % (na, nb, p, w, f),
                          Q("C02", "C15", "C17") if quick else TH("C02", "C15", "C17"), unwind=p + 6,
                          bound="UBig %s, lengths exactly (%d,%d), structured words, symbolic divisor, identity q*b+r=a" % (WH[w], na, nb))
                    if na >= nb:
                        for ln, lit in LITS[nb].items():
                            quick = na <= 3 and f == (na + nb + w) % nf and ln in ("d3", "dtop5", "dw_shift", "dw_noshift", "lg705", "lgtop") and (w in (0, 1, 2, 5, 6) or (na + w) % 3 == 0)
                            H("c02_%s_u_%d_%s_f%d" % (WH[w], na, ln, f), "h_div::div_u::<%d,%d,%d>(%d,%d,4,Some([%s]))" % (na, nb, p, w, f, ",".join(map(str, lit))),
                              Q("C02", "C15", "C17") if quick else TH("C02", "C15", "C17"), unwind=p + 6,
                              bound="UBig %s, dividend of exactly %d structured words, literal divisor %s, identity q*b+r=a" % (WH[w], na, ln))
    for na in (0, 1, 2, 3):
        for w in range(9):
            H("c02_div_u_zero_%d_%d" % (na, w), "h_div::div_u_zero::<%d>(%d)" % (na, w), Q("C02", "C16") if (na + w) % 2 == 0 else TH("C02", "C16"), kind="panic", unwind=na + 6,
              bound="UBig division by zero panics (length %d)" % na)
    TW = {0: "div_rem_ops", 2: "divrem", 3: "divrem_assign", 4: "opassign"}
    for na in range(0, 4):
        for nb in range(1, 4):
            p = max(na, nb) + 1
            for sa in "pn":
                for sb in "pn":
                    if na == 0 and sa == "n":
                        continue
                    for w in (0, 2, 3, 4):
                        nf = 4 if w in (0, 2) else 1
                        for f in range(nf):
                            rot = f == (na + nb + (sa == "n") + (sb == "n")) % nf
                            if na < nb or (na, nb) == (1, 1):
                                H("c02_%s_i_%d%d_%s%s_f%d" % (TW[w], na, nb, sa, sb, f), "h_div::div_i_trunc::<%d,%d,%d>(%s,%s,%d,%d,4,None)" % (na, nb, p, SIGN[sa], SIGN[sb], w, f),
                                  Q("C02", "C15") if (rot and (na, nb) == (1, 1) and w in (0, 2)) else TH("C02", "C15"), unwind=p + 6,
                                  bound="IBig truncating division %s, lengths (%d,%d), signs %s%s, structured, symbolic divisor" % (TW[w], na, nb, sa, sb))
                            if na >= nb:
                                for ln, lit in LITS[nb].items():
                                    quick = rot and w in (0, 2) and ln in ("dtop5", "dw_shift", "lg705") and (na, nb) in ((1, 1), (2, 1), (3, 2), (3, 3), (2, 2), (3, 1))
                                    H("c02_%s_i_%d_%s_%s%s_f%d" % (TW[w], na, ln, sa, sb, f),
                                      "h_div::div_i_trunc::<%d,%d,%d>(%s,%s,%d,%d,4,Some([%s]))" % (na, nb, p, SIGN[sa], SIGN[sb], w, f, ",".join(map(str, lit))),
                                      Q("C02", "C15") if quick else TH("C02", "C15"), unwind=p + 6,
                                      bound="IBig truncating division %s, dividend %d structured words, literal |divisor| %s, signs %s%s" % (TW[w], na, ln, sa, sb))
    for dn, d in (("lg705", [7, 0, 5]), ("lg4_a", [3, 0, 0, 11]), ("dw_shift", [9, 7]), ("odd", [0x1234567])):
        for w, wn in enumerate(("div", "rem", "divrem", "plain")):
            n = len(d)
            H("c02_constdiv_cons_%s_%s" % (dn, wn), "h_div::const_div_constructed::<%d,%d,%d>([%s],%d,6,6)" % (n, n, n + 1, ",".join(map(str, d)), w),
              Q("C02") if dn in ("lg705", "dw_shift") else TH("C02"), unwind=n + 8,
              bound="ConstDivisor(%s) %s on dividends q*d + r (q, r < 2^6) of exactly as many words as the divisor" % (dn, wn))
    # literal divisor, literal upper dividend words, SYMBOLIC low dividend word: expected (q, r) from constants
    # computed here (q0, r0 = divmod at low word 0); covers "dividend as long as the divisor" and one word longer
    W_ = 64
    M_ = (1 << W_) - 1
    def words(v, n):
        return [(v >> (W_ * i)) & M_ for i in range(n)]
    LOWSYM = {"lg705": [7, 0, 5], "lg3_top": [M_, 0, 1 << (W_ - 1)], "lg3_mid": [0x10001, 3, 0x12345678], "lg4_a": [3, 0, 0, 11]}
    for dn, d in LOWSYM.items():
        nd_ = len(d)
        dv = sum(w << (W_ * i) for i, w in enumerate(d))
        ups = {"eq": d[1:], "eq1": d[1:-1] + [d[-1] + 1], "dbl": words(2 * dv >> W_, nd_ - 1), "top": [M_] * (nd_ - 1), "long": [5] + d[1:-1] + [d[-1] - 1, 2], "longM": [M_] * (nd_ - 1) + [d[-1] - 1]}
        for un, up in ups.items():
            xv = sum(w << (W_ * (i + 1)) for i, w in enumerate(up))
            if xv >> (W_ * len(up)) == 0 and up[-1] == 0:
                continue
            q0, r0 = divmod(xv, dv)
            la = len(up) + 1
            for w, wn in enumerate(("div", "rem", "divrem", "remref", "plain")):
                H("c02_constdiv_lowsym_%s_%s_%s" % (dn, un, wn),
                  "h_div::const_div_lowsym::<%d,%d,%d>([%s],[0,%s],[%s],[%s],%d,64)" % (nd_, la, nd_ + 1, ",".join(map(str, d)), ",".join(map(str, up)), ",".join(map(str, words(q0, 2))), ",".join(map(str, words(r0, nd_))), w),
                  Q("C02") if (dn in ("lg705", "lg3_mid") and un in ("eq", "long") and w == 4) else TH("C02"), unwind=la + 3,
                  stubs=REALLOC if w < 4 else (),
                  bound="ConstDivisor(%s = %d-word literal) %s; dividend of %d words: literal upper words (%s), every low word%s" % (dn, nd_, wn, la, un, "; realloc stubbed as allocate+copy+free" if w < 4 else ""))
    for cfg in ("i64", "i32"):
        for sa in "pn":
            for sb in "pn":
                for w in range(4):
                    H("c02_euclid_small_%s%s_%d" % (sa, sb, w), "h_div::div_i_euclid_small(%s,%s,%d,10)" % (SIGN[sa], SIGN[sb], w),
                      (Q("C02", "C15") if w in (0, 2) else TH("C02", "C15")) if cfg == "i64" else TH("C02", "C19"), cfg, unwind=6,
                      bound="IBig Euclidean forms, |a|,|b| < 2^10 (one word), signs %s%s, inline-only regime, identity in i128" % (sa, sb))
                H("c02_trunc_small_%s%s" % (sa, sb), "h_div::div_i_trunc_small(%s,%s,10)" % (SIGN[sa], SIGN[sb]), Q("C02") if cfg == "i64" else TH("C02", "C19"), cfg, unwind=6,
                  bound="IBig div_rem/is_multiple_of, |a|,|b| < 2^10, signs %s%s" % (sa, sb))
    # ConstDivisor, concrete divisors per class
    W = 64
    M = (1 << W) - 1
    DIVS = {"one": [1], "pow2": [1 << 20], "odd": [0x1234567], "noshift": [(1 << (W - 1)) + 5], "noshift2": [M - 2], "dw_noshift": [5, 1 << (W - 1)], "dw_shift": [9, 7], "dw_pow2": [0, 1 << 9],
            "lg3": [7, 0, 5], "lg3_top": [M, 0, 1 << (W - 1)]}
    for dn, d in DIVS.items():
        for na in (1, 2, 3, 4):
            for w in range(4):
                quick = ((w == (na + len(d)) % 4 and na in (2, 3)) or (na == len(d) and na >= 2 and w in (0, 3))) and not (len(d) == 3 and na >= 3)
                H("c02_constdiv_%s_%d_%d" % (dn, na, w), "h_div::const_div::<%d,%d>([%s],%d,4)" % (na, len(d), ",".join(str(v) for v in d), w),
                  Q("C02") if quick else TH("C02"), unwind=na + len(d) + 8, bound="ConstDivisor(%s) vs plain division, structured dividends of %d words" % (dn, na))


def conv_family():
    PN = ["u8", "u16", "u32", "u64", "u128", "usize", "i8", "i16", "i32", "i64", "i128", "isize", "bool"]
    for cfg in ("w64", "w32"):
        for w, nm in enumerate(PN):
            H("c06_from_%s" % nm, "h_conv::from_prim(%d)" % w, Q("C06") if cfg == "w64" else mix(quick=("C19",) if w in (4, 10) else (), thorough=("C06", "C19")), cfg, unwind=8,
              bound="From/TryFrom<%s> for UBig/IBig and back, every value" % nm)
        for n in range(0, 4 if cfg == "w64" else 6):
            for s in "pn":
                if n == 0 and s == "n":
                    continue
                for w in range(12):
                    quick = cfg == "w64" and n <= 3 and (w + n) % 3 == 0
                    H("c06_to_%s_%d_%s" % (PN[w], n, s), "h_conv::to_prim::<%d>(%s,%d)" % (n, SIGN[s], w),
                      Q("C06") if quick else (TH("C06") if cfg == "w64" else TH("C06", "C19")), cfg, unwind=n + 6,
                      bound="TryFrom<UBig/IBig> for %s, integer length exactly %d words (%s)" % (PN[w], n, s))
        Wd = 64 if cfg == "w64" else 32
        TOPS = {"t1": 1, "t3": 3, "thi": 1 << (Wd - 1), "thi1": (1 << (Wd - 1)) + 1, "tmax": (1 << Wd) - 1, "tmid": 1 << 20}
        for n in range(0, 6):
            for s in "pn":
                if n == 0 and s == "n":
                    continue
                for f64_ in (False, True):
                    nm = "f64" if f64_ else "f32"
                    fb = "true" if f64_ else "false"
                    if n <= 2:
                        quick = cfg == "w64"
                        H("c06_to_%s_%d_%s" % (nm, n, s), "h_conv::to_float::<%d>(%s,%s,0)" % (n, SIGN[s], fb),
                          Q("C06") if quick else TH("C06", "C19"), cfg, unwind=n + 6,
                          bound="to_%s of every integer of exactly %d words (%s): value, Exact flag, error sign vs integer reference" % (nm, n, s))
                        H("c06_try_%s_%d_%s" % (nm, n, s), "h_conv::int_to_float_exact::<%d>(%s,%s,0)" % (n, SIGN[s], fb),
                          Q("C06") if quick else TH("C06", "C19"), cfg, unwind=n + 6,
                          bound="TryFrom<UBig/IBig> for %s, every integer of exactly %d words (%s)" % (nm, n, s))
                    else:
                        for tn, tv in TOPS.items():
                            quick = cfg == "w64" and n <= 4 and ((tn in ("t1", "thi1", "tmax") and n == 3) or (tn == "t3" and n == 4)) and (s == "p" or tn == "t1")
                            H("c06_to_%s_%d_%s_%s" % (nm, n, s, tn), "h_conv::to_float::<%d>(%s,%s,%d)" % (n, SIGN[s], fb, tv),
                              Q("C06") if quick else TH("C06", "C19"), cfg, unwind=n + 6,
                              bound="to_%s of integers of exactly %d words (%s) with top word literal %s and all lower words symbolic" % (nm, n, s, tn))
                            if tn in ("t1", "tmax"):
                                H("c06_try_%s_%d_%s_%s" % (nm, n, s, tn), "h_conv::int_to_float_exact::<%d>(%s,%s,%d)" % (n, SIGN[s], fb, tv),
                                  TH("C06", "C19"), cfg, unwind=n + 6,
                                  bound="TryFrom<UBig/IBig> for %s, %d words (%s), top word literal %s" % (nm, n, s, tn))
    # TryFrom<f32/f64> for UBig/IBig and NumOrd against f32/f64 (decode, then << / >> by a data-dependent amount)
    # are NOT harnessed: every formulation tried (exponent windows, inline-only regime, before and after the
    # cut was moved inside the heap arms) ran out of memory in CBMC because the shift amount - and with it
    # the size of the buffer built by << - stays symbolic (see DESIGN 3/C06, C14).


def text_family():
    for cfg, WBY in (("w64", 8), ("w32", 4)):
        for L in (0, 1, 7, 8, 9, 15, 16, 17, 18, 24, 25) if cfg == "w64" else (0, 3, 4, 5, 7, 8, 9, 12, 13):
            for be in (False, True):
                mu = max(1, (L + WBY - 1) // WBY)
                q = cfg == "w64" and L in (0, 7, 9, 16, 17, 25)
                pr = Q("C07", "C17") if q else (TH("C07") if cfg == "w64" else mix(quick=("C19",) if L in (5, 9) else (), thorough=("C07", "C19")))
                H("c07_from_%s_bytes_u_%d" % ("be" if be else "le", L), "h_text::from_bytes_u::<%d,%d>(%s)" % (L, mu, "true" if be else "false"), pr, cfg,
                  unwind=L + 8, bound="UBig::from_%s_bytes of %d arbitrary bytes" % ("be" if be else "le", L))
                H("c07_from_%s_bytes_i_%d" % ("be" if be else "le", L), "h_text::from_bytes_i::<%d,%d>(%s)" % (L, L // WBY + 2, "true" if be else "false"), pr, cfg,
                  unwind=L + 3 * WBY + 4, bound="IBig::from_%s_bytes of %d arbitrary bytes (two's complement)" % ("be" if be else "le", L))
        Wd = 64 if cfg == "w64" else 32
        BT = {"t1": 1, "t7f": 0x7f, "t80": 0x80, "tff": 0xff, "t100": 0x100, "thi": 1 << (Wd - 1), "tmax": (1 << Wd) - 1, "tmid": 0x8000}
        for n in range(0, 5):
            for be in (False, True):
                for tn, tv in (BT.items() if n > 0 else [("t0", 0)]):
                    q = cfg == "w64" and n <= 3 and tn in ("t1", "t80", "tff", "thi", "tmax", "t0") and (be == (n % 2 == 0) or tn in ("t1", "t80"))
                    pr = Q("C07", "C17") if q else (TH("C07") if cfg == "w64" else mix(quick=("C19",) if (n == 3 and tn == "t1") else (), thorough=("C07", "C19")))
                    H("c07_to_%s_bytes_u_%d_%s" % ("be" if be else "le", n, tn), "h_text::to_bytes_u::<%d>(%s,%d)" % (n, "true" if be else "false", tv), pr, cfg,
                      unwind=(n + 1) * WBY + 4, bound="UBig::to_%s_bytes, exactly %d words with top word literal %s, lower words symbolic: bytes, minimal length, round trip" % ("be" if be else "le", n, tn))
                    for s in "pn":
                        if n == 0 and s == "n":
                            continue
                        H("c07_to_%s_bytes_i_%d_%s_%s" % ("be" if be else "le", n, s, tn), "h_text::to_bytes_i::<%d>(%s,%s,%d)" % (n, SIGN[s], "true" if be else "false", tv),
                          pr if (s == "n" or tn in ("t80", "thi")) else (TH("C07") if cfg == "w64" else TH("C07", "C19")), cfg,
                          unwind=(n + 2) * WBY + 4, bound="IBig::to_%s_bytes (%s), exactly %d words with top word literal %s: two's complement meaning and round trip" % ("be" if be else "le", s, n, tn))
    for radix in (2, 3, 7, 8, 10, 16, 32, 36):
        for L in (0, 1, 2, 3, 4, 5):
            for signed in (False, True):
                q = radix in (2, 10, 16, 36) and L in (1, 3, 4) and (signed or L != 4)
                H("c07_parse_r%d_L%d_%s" % (radix, L, "i" if signed else "u"), "h_text::parse_radix::<%d>(%d,%s,false)" % (L, radix, "true" if signed else "false"),
                  Q("C07", "C16") if q else TH("C07", "C16"), unwind=L + 6, bound="from_str_radix(radix %d) on every ASCII string of length %d without '_'" % (radix, L))
        for L in (2, 3):
            H("c07_parse_us_r%d_L%d" % (radix, L), "h_text::parse_radix::<%d>(%d,true,true)" % (L, radix), Q("C07", "C16") if (radix in (10, 16) and L == 3) else TH("C07", "C16"), unwind=L + 8,
              bound="from_str_radix(radix %d) on every ASCII string of length %d, underscores allowed" % (radix, L))
    for L in (0, 1, 2, 3, 4, 5):
        for signed in (False, True):
            H("c07_parse_prefix_L%d_%s" % (L, "i" if signed else "u"), "h_text::parse_prefix::<%d>(%s)" % (L, "true" if signed else "false"),
              Q("C07", "C16") if L in (3, 4) else TH("C07", "C16"), unwind=L + 6, bound="from_str_with_radix_prefix on every ASCII string of length %d" % L)
    for (k, L) in ((4, 16), (4, 17), (4, 18), (1, 65), (3, 21), (3, 22), (3, 23), (5, 13), (5, 14)):
        m = (L * k + 63) // 64
        H("c07_parse_pow2_k%d_L%d" % (k, L), "h_text::parse_pow2_long::<%d,%d>(%d)" % (L, m, k), Q("C07") if (k, L) in ((4, 17), (3, 22), (5, 13)) else TH("C07"), unwind=L + 6,
          bound="from_str_radix(2^%d) on every %d-digit string (crosses the word boundary)" % (k, L))
    for radix in (2, 3, 8, 10, 16, 36, 7, 32):
        for bits, nm in ((16, "b16"), (64, "b64"), (128, "b128")):
            for neg in (False, True):
                up = radix > 10 and neg
                q = radix in (10, 16, 3) and bits == 16
                H("c07_print_r%d_%s_%s" % (radix, nm, "n" if neg else "p"), "h_text::print_radix(%d,%d,%s,%s)" % (radix, bits, "true" if neg else "false", "true" if up else "false"),
                  Q("C07") if q else TH("C07"), unwind=140, bound="Display of in_radix(%d) for every value below 2^%d (%s): digits = positional representation" % (radix, bits, "negative" if neg else "non-negative"))


    for w in range(14):
        H("c07_fmt_flags_u_%d" % w, "h_text::fmt_flags_u(%d)" % w, Q("C07") if w in (3, 5, 7, 10) else TH("C07"), unwind=48,
          bound="UBig formatted with flag combination #%d equals Rust's formatting of the same u32, every value" % w)
    for w in range(8):
        H("c07_fmt_flags_i_%d" % w, "h_text::fmt_flags_i(%d)" % w, Q("C07") if w in (3, 5) else TH("C07"), unwind=48,
          bound="IBig (decimal) formatted with flag combination #%d equals Rust's formatting of the same i32, every value" % w)


def nt_family():
    for w, nm in enumerate(("u8", "u16", "u32")):
        H("c12_gcd_prim_%s" % nm, "h_nt::gcd_prim(%d)" % w, Q("C12") if w < 1 else ({"C12": "probe"} if w == 2 else TH("C12")), unwind=(20, 36, 70)[w],
          bound="dashu-base gcd/gcd_ext for every pair of %s (common divisor + Bezout identity)" % nm)
    H("c12_gcd_prim_zero", "h_nt::gcd_prim_zero()", Q("C12", "C16"), kind="panic", unwind=4, bound="gcd(0,0) panics")
    for w, nm in enumerate(("sqrt_u8", "sqrt_u16", "sqrt_u32", "sqrt_u64", "cbrt_u8", "cbrt_u16", "cbrt_u32", "cbrt_u64")):
        H("c12_root_prim_%s" % nm, "h_nt::root_prim(%d)" % w, Q("C12") if nm in ("sqrt_u8", "sqrt_u16", "cbrt_u8", "cbrt_u16") else ({"C12": "probe"} if nm in ("sqrt_u64", "cbrt_u64") else TH("C12")), unwind=20,
          bound="dashu-base %s_rem for every value: s^k <= n < (s+1)^k and the remainder" % nm)
    H("c12_log2_u8", "h_nt::log2_u16::<255>(1,true)", Q("C12", "C19"), unwind=260, bound="no_std log2_bounds for every u8, exact against floor/ceil(2^40 log2 n)")
    for i in range(64):
        lo = max(1, i * 1024)
        span = 1024 if i else 1023
        H("c12_log2_u16_%d" % i, "h_nt::log2_u16::<%d>(%d,false)" % (span, lo), Q("C12", "C19") if i in (0, 1, 16, 32, 63) else TH("C12", "C19"), unwind=1030, pin=(i in (0, 32, 63)),
          bound="no_std log2_bounds for every u16 in [%d,%d], exact against floor/ceil(2^40 log2 n)" % (lo, lo + span - 1))
    H("c12_log2_zero", "h_nt::log2_zero()", Q("C12"), unwind=4)
    for i in range(64):
        lo = 32768 + i * 512
        H("c12_log2_u32_%d" % i, "h_nt::log2_wide::<512,513>(false,%d)" % lo, Q("C12", "C19") if i in (0, 31, 63) else TH("C12", "C19"), unwind=520, pin=(i in (0, 63)),
          bound="no_std log2_bounds for every u32 > 65535 whose 16-bit prefix is in [%d,%d]: bounds must enclose a rigorous enclosure of log2 n" % (lo, lo + 511))
        H("c12_log2_u64_%d" % i, "h_nt::log2_wide::<512,513>(true,%d)" % lo, TH("C12", "C19") if i in (0, 31, 63) else {"C12": "probe"}, unwind=520,
          bound="no_std log2_bounds for every u64 > 65535 whose 16-bit prefix is in [%d,%d]" % (lo, lo + 511))
    H("c12_next_updown", "h_nt::next_updown()", Q("C12"), unwind=4, bound="next_up/next_down for every finite f32")
    H("c12_nth_root_zero", "h_nt::nth_root_zero_one(false)", Q("C12"), "i64", unwind=6, bound="UBig/IBig::nth_root(n) of 0 for every n >= 1")
    H("c12_nth_root_one", "h_nt::nth_root_zero_one(true)", {"C12": "probe"}, "i64", unwind=6, bound="UBig/IBig::nth_root(n) of 1 for every n >= 1")
    for n in (3, 4, 5, 7, 64, 100):
        H("c12_nth_root_tiny_%d" % n, "h_nt::nth_root_tiny(%d)" % n, TH("C12"), "i64", unwind=6,
          bound="UBig::nth_root(%d) for every value below 2^%d (incl. 0)" % (n, min(n, 64)))
    for w in range(4):
        H("c12_sqrt_small_%d" % w, "h_nt::sqrt_small(16,%d)" % w, {"C12": "probe"}, "i64", unwind=12, bound="UBig sqrt/sqrt_rem/nth_root(1,2) for every value below 2^16")
        H("c12_sqrt_word_%d" % w, "h_nt::sqrt_small(63,%d)" % w, {"C12": "probe"}, "i64", unwind=12, bound="UBig sqrt/sqrt_rem for every value below 2^63")
    for s in "pn":
        H("c12_cbrt_tiny_%s" % s, "h_nt::cbrt_tiny(%s)" % SIGN[s], {"C12": "probe"}, "i64", unwind=3, bound="IBig::cbrt / nth_root(3) for 0 < |x| < 8, sign %s: +-1, no panic" % s)
        H("c12_cbrt_small_%s" % s, "h_nt::cbrt_small(%s,10)" % SIGN[s], {"C12": "probe"}, "i64", unwind=24, bound="IBig::cbrt / nth_root(3), |x| < 2^10, sign %s" % s)
    H("c12_cbrt_literals", "h_nt::cbrt_literals()", Q("C12", "C16"), "i64", unwind=40, bound="IBig::cbrt of the literals -1,-7,-8,-9,-27,-1000,8,26 (no symbolic input: the symbolic variants are probes)")
    for w in range(9):
        H("c12_root_panics_%d" % w, "h_nt::root_panics(%d)" % w, Q("C12", "C16"), "i64", kind="panic", unwind=8, bound="documented panics of roots / ilog / gcd(0,0)")
    for n in (1, 2, 3):
        for k in (1, 3, 4, 16):
            H("c12_ilog_pow2_%d_k%d" % (n, k), "h_nt::ilog_pow2::<%d>(%d)" % (n, k), Q("C12") if (n + k) % 2 == 0 else TH("C12"), unwind=n + 4, bound="UBig::ilog(2^%d) for every value of exactly %d words" % (k, n))
    H("c12_gcd_small_8", "h_nt::gcd_small(8)", {"C12": "probe"}, "i64", unwind=300, bound="UBig gcd/gcd_ext, operands below 2^8 (Bezout identity)")
    H("c12_gcd_small_16", "h_nt::gcd_small(16)", {"C12": "probe"}, "i64", unwind=300, bound="UBig gcd/gcd_ext, operands below 2^16")
    for b in (12, 1024, 10, 3):
        for n in (3, 4):
            for sw in (False, True):
                H("c12_gcd_ext_large_word_%d_b%d_%s" % (n, b, "ba" if sw else "ab"), "h_nt::gcd_ext_large_word::<%d,%d>(%d,%s)" % (n, n + 2, b, "true" if sw else "false"),
                  TH("C12"), unwind=80,
                  bound="gcd_ext of %d structured words and the literal word %d: divisibility and Bezout identity with signs" % (n, b))
    for b in (12, 10, 1024, 3):
        H("k_gcd_ext_word_3_b%d" % b, "h_nt::k_gcd_ext_word::<3,4>(%d)" % b, Q("C12") if b in (12, 10) else TH("C12"), unwind=12,
          bound="kernel gcd_ext_word: every 3-word value against the literal word %d: Bezout identity with signs" % b)
    for b in (6, 12, 10, 1024):
        for sb in (8, 16, 64):
            H("k_gcd_ext_word_lowsym_b%d_s%d" % (b, sb), "h_nt::k_gcd_ext_word_lowsym::<3,4>([0,5,9],%d,%d)" % (b, sb), Q("C12") if (b, sb) == (6, 8) else TH("C12"), unwind=9 if b < 100 else 18, pin=(b, sb) == (6, 8),
              bound="kernel gcd_ext_word: the 3-word values [s, 5, 9], s < 2^%d, against the literal word %d: Bezout identity with signs" % (sb, b))
    for f in (2, 8, 3, 10):
        H("c12_remove_%d" % f, "h_nt::remove_small(12,%d)" % f, Q("C12") if f in (2, 8) else TH("C12"), "i64", unwind=24, bound="UBig::remove(%d) for every non-zero value below 2^12" % f)


def mod_family():
    W = 64
    M = (1 << W) - 1
    MODS = {"m10007": [10007], "m2p40": [1 << 40], "mtop5": [(1 << (W - 1)) + 5], "mbig59": [M - 58], "dw13": [13, 1], "dwtop": [5, 1 << (W - 1)],
            "lg705": [7, 0, 5], "lgtop": [M, 0, 1 << (W - 1)]}
    OPN = ["add", "sub", "mul", "neg", "dbl", "sqr", "pow", "assign", "mulref"]
    for mn, m in MODS.items():
        small = len(m) == 1 and m[0] < (1 << 20)
        bits = 6 if small else 12
        for op, on in enumerate(OPN):
            if op == 6:
                for e in (0, 1, 2, 3, 5) if not small else (0, 1, 2):
                    H("c13_%s_pow%d" % (mn, e), "h_mod::ring_op::<%d>([%s],6,%d,%d)" % (len(m), ",".join(map(str, m)), e, 6 if small else 12),
                      Q("C13") if (e in (0, 3) and mn in ("m10007", "mtop5", "dw13")) else TH("C13"), unwind=16,
                      bound="Reduced::pow(%d) in the ring mod %s, base = +-p (p < 2^%d)" % (e, mn, 6 if small else 12))
            else:
                q = mn in ("m10007", "mtop5", "dw13", "dwtop") and on in ("add", "sub", "mul", "neg", "sqr")
                H("c13_%s_%s" % (mn, on), "h_mod::ring_op::<%d>([%s],%d,0,%d)" % (len(m), ",".join(map(str, m)), op, bits),
                  Q("C13", "C15") if q else TH("C13", "C15"), unwind=16, bound="Reduced %s in the ring mod %s, elements +-p (p < 2^%d), residue vs integer result mod m" % (on, mn, bits))
    for m in (1, 2, 9, 10, 10007, 65536):
        for neg in (False, True):
            H("c13_reduce_%d_%s" % (m, "n" if neg else "p"), "h_mod::reduce_small(%d,%s)" % (m, "true" if neg else "false"), Q("C13") if m in (1, 9, 10007) else TH("C13"), unwind=8,
              bound="ConstDivisor(%d).reduce of every |a| < 2^32 (%s)" % (m, "negative" if neg else "non-negative"))
    for m in (1, 2, 9, 10, 12, 97):
        H("c13_inv_%d" % m, "h_mod::ring_inv(%d)" % m, Q("C13") if m in (1, 9, 10) else TH("C13"), unwind=80, bound="Reduced::inv in the ring mod %d, every residue" % m)
    for mn, m in (("fsq", [1, 2, 1]), ("f_c3", [3, 4, 1])):
        H("c13_inv_large_%s" % mn, "h_mod::ring_inv_large::<3>([%s],[1,1],8)" % ",".join(map(str, m)), TH("C13"), unwind=40,
          bound="Reduced::inv in the 3-word ring m = (2^64+1)*c for elements +-k*(2^64+1), k < 2^8: must be None")
    for mn, m in (("lgtop", [5, 0, (1 << 63) + 9]), ("lg705", [7, 0, 5]), ("lg_sh1", [3, 1, 1 << 62])):
        for op, on in enumerate(("add", "sub", "neg", "dbl", "subswap")):
            H("k_ring_large_%s_%s" % (mn, on), "h_mod::ring_large_kernel::<3>([%s],%d)" % (",".join(map(str, m)), op), Q("C13") if mn != "lg_sh1" else TH("C13"), unwind=8,
              bound="multi-word ring kernel %s mod the literal 3-word modulus %s: every pair of residues" % (on, mn))
    for op in range(4):
        H("c13_mix_%d" % op, "h_mod::ring_mix(%d)" % op, Q("C13", "C16"), kind="panic", unwind=8, bound="operands from two ConstDivisor instances panic")


MODES = ["Zero", "Away", "Up", "Down", "HalfEven", "HalfAway"]


def round_family():
    for m, mn in enumerate(MODES):
        H("c10_round_low_part_%s" % mn, "h_round::round_low_part(%d)" % m, Q("C10"), unwind=4,
          bound="Round::round_low_part, mode %s, |integer| < 2^40, every (sign of low part, |low| cmp 1/2)" % mn)
        for B, ps in ((2, (1, 3, 8)), (3, (1, 2, 5)), (10, (1, 2, 3)), (16, (1, 2)), (36, (1, 2))):
            for p in ps:
                q = (B in (2, 10) and p in (1, 3)) or (B == 3 and p == 2 and m >= 4)
                H("c10_round_fract_%s_b%d_p%d" % (mn, B, p), "h_round::round_fract::<%d>(%d,%d)" % (B, m, p), Q("C10") if q else TH("C10"), "i64", unwind=12,
                  bound="Round::round_fract::<%d>, mode %s, precision %d, every |fract| < %d^%d and |integer| < 2^20" % (B, mn, p, B, p))
        for bits in (4, 10):
            H("c10_round_ratio_%s_%d" % (mn, bits), "h_round::round_ratio(%d,%d)" % (m, bits), Q("C10") if bits == 4 else TH("C10"), "i64", unwind=8,
              bound="Round::round_ratio, mode %s, |num| <= |den| < 2^%d, every sign combination" % (mn, bits))
    H("c10_add_rounding", "h_round::add_rounding()", Q("C10"), "i64", unwind=6, bound="IBig + Rounding, |integer| < 2^40")
    for B in (2, 10, 3, 16):
        for right in (False, True):
            H("c15_fbig_%s_b%d" % ("shr" if right else "shl", B), "h_round::fbig_shift::<%d>(%s)" % (B, "true" if right else "false"), Q("C15") if B in (2, 16) else TH("C15"), "i64", unwind=8,
              bound="FBig<Zero,%d> %s, |significand| < 2^30 (normalised), |exponent|,|k| < 1000" % (B, ">> vs >>=" if right else "<< vs <<="))
    H("c15_fbig_shift_zero", "h_round::fbig_shift_zero()", Q("C15"), "i64", unwind=8, bound="FBig zero under every shift form, |k| < 1000")


def numord_family():
    PN = ["u8", "u16", "u32", "u64", "u128", "usize", "i8", "i16", "i32", "i64", "i128", "isize"]
    for cfg in ("w64", "w32"):
        for n in range(0, 4 if cfg == "w64" else 6):
            for s in "pn":
                if n == 0 and s == "n":
                    continue
                for w, nm in enumerate(PN):
                    q = cfg == "w64" and (w + n + (s == "n")) % 3 == 0
                    H("c14_ord_%s_%d_%s" % (nm, n, s), "h_numord::ord_prim::<%d>(%s,%d)" % (n, SIGN[s], w), Q("C14") if q else (TH("C14") if cfg == "w64" else TH("C14", "C19")), cfg,
                      unwind=n + 6, bound="NumOrd between UBig/IBig of exactly %d words (%s) and every %s, both directions" % (n, s, nm))
    for na in range(0, 4):
        for nb in range(0, 4):
            for sb in "pn":
                if nb == 0 and sb == "n":
                    continue
                H("c14_ord_ui_%d%d_%s" % (na, nb, sb), "h_numord::ord_ui::<%d,%d>(%s)" % (na, nb, SIGN[sb]), Q("C14") if (na + nb) % 2 == 0 else TH("C14"), unwind=max(na, nb) + 6,
                  bound="NumOrd UBig(len %d) vs IBig(len %d, %s)" % (na, nb, sb))
    for w, nm in enumerate(("u64", "i64", "u128", "i128")):
        H("c14_numhash_%s" % nm, "h_numord::hash_prim(%d)" % w, Q("C14") if w < 2 else TH("C14"), "i64", unwind=40, bound="NumHash byte stream of UBig/IBig equals that of the primitive %s of the same value, every value" % nm)


def buf_family():
    OPS_B = ["push_resizing", "push_zeros", "push_zeros_front", "push_slice", "pop_truncate", "erase_front", "ensure_capacity", "ensure_capacity_exact",
             "shrink_to_fit", "clone_from_slice", "into_boxed_slice", "clone", "clone_from", "push_resizing_x3"]
    for n in range(0, 5):
        for cv in range(3):
            for op, on in enumerate(OPS_B):
                q = n in (1, 2, 3) and cv == (op + n) % 3
                H("c17_buffer_%s_%d_c%d" % (on, n, cv), "h_buf::buffer_op::<%d,%d>(%d,%d)" % (n, n + 4, cv, op), Q("C17") if q else TH("C17"), unwind=n + 8,
                  bound="Buffer::%s on %d symbolic words (capacity variant %d) followed by Repr::from_buffer: value and invariants" % (on, n, cv))
    for n in range(0, 5):
        H("c17_roundtrip_%d" % n, "h_buf::into_buffer_roundtrip::<%d>()" % n, Q("C17") if n <= 3 else TH("C17"), unwind=n + 6, bound="from_words(as_words) / clone / drop, length %d" % n)
    H("c17_memory_slices", "h_buf::memory_slices()", Q("C17"), unwind=8, bound="Memory bump allocator: three slices in bounds, disjoint, contents kept")
    H("c17_memory_exhausted", "h_buf::memory_exhausted()", Q("C17", "C16"), kind="panic", unwind=8, bound="Memory bump allocator refuses more than its chunk")
    for n in (1, 2, 3):
        for w in range(3):
            H("c17_self_assign_%d_%d" % (n, w), "h_buf::self_assign::<%d,%d>(%d)" % (n, n + 1, w), Q("C17", "C15") if (n + w) % 2 == 0 or n == 2 else TH("C17", "C15"), unwind=n + 6,
              bound="x op= &x.clone() sequences across the inline/heap boundary, length %d" % n)
    TY = ["u8", "u16", "u32", "i8", "i16", "i32"]
    OPN = ["add", "sub", "mul", "div", "rem"]
    for s in "pn":
        for ty, tn in enumerate(TY):
            for op, on in enumerate(OPN):
                q = tn in ("u8", "i8", "u32") and (s == "n" or op in (1, 4))
                H("c16_ibig_%s_%s_%s" % (on, tn, s), "h_buf::ibig_prim(%s,%d,%d,10)" % (SIGN[s], ty, op), Q("C16", "C15") if q else TH("C16", "C15"), "i64", unwind=8,
                  bound="IBig(|x| < 2^10, %s) %s %s in every provided form: no panic, value = big-big result" % (s, on, tn))
    H("c16_ibig_rem_unsigned_negative", "h_buf::ibig_rem_unsigned_negative()", Q("C16"), "i64", unwind=8, finding="C16-ibig-rem-unsigned-negative",
      bound="KNOWN FINDING twin: negative IBig % u8 with a non-zero remainder")


def float_family():
    # base-2 float add/sub/mul on the real integer layer: exponent gap concrete, significands symbolic
    for m, mn in enumerate(MODES):
        for gap in (0, 1, 3, 6, 9, 20):
            for sub in (False, True):
                q = mn in ("Zero", "HalfEven", "Up") and gap in (0, 3, 9) and (sub == (gap == 3))
                H("c03_%s_%s_g%d" % ("sub" if sub else "add", mn, gap), "h_float::ctx_addsub(%d,%d,5,8,%s)" % (m, gap, "true" if sub else "false"),
                  Q("C03") if q else TH("C03"), "i64", unwind=24,
                  bound="Context<%s>::new(5).%s on base-2 floats a*2^%d and b, |a|,|b| < 2^8: exact iff representable, < 1 ulp, side and flag per mode" % (mn, "sub" if sub else "add", gap))
        H("c03_mul_%s" % mn, "h_float::ctx_mul(%d,5,8)" % m, Q("C03") if mn in ("Zero", "HalfAway", "Down") else TH("C03"), "i64", unwind=24,
          bound="Context<%s>::new(5).mul on base-2 floats, |a|,|b| < 2^8" % mn)


def demote_probes():
    """harnesses that the calibration runs showed to be undecided inside the quick time limit (time-out or out of
    memory on the UNCHANGED tree) are listed in probe_list.txt; they stay in the table as documentation of what was
    tried (./check <ID> --tier probe) but belong to no registered command - an undecided harness is not a pass"""
    import os
    path = os.path.join(os.path.dirname(os.path.abspath(__file__)), "probe_list.txt")
    if not os.path.exists(path):
        return
    names = {l.split()[0] for l in open(path) if l.strip() and not l.startswith("#")}
    for e in T:
        if e["name"] in names:
            for prop in list(e["props"]):
                e["props"][prop] = "probe"


def demote_slow(limit=75.0):
    """harnesses whose measured time (engines/timings.json, from calibration runs on 14 cores) exceeds `limit`
    seconds leave the quick tier (they stay in thorough)"""
    import os, json
    path = os.path.join(os.path.dirname(os.path.abspath(__file__)), "timings.json")
    if not os.path.exists(path):
        return
    t = json.load(open(path))
    for e in T:
        if e.get("pin"):
            continue  # pinned: stays in the quick tier up to the per-harness time limit (needed to keep a region covered)
        if t.get(e["name"], 0) > limit:
            for prop in list(e["props"]):
                if e["props"][prop] == "quick":
                    e["props"][prop] = "thorough"


def mark_candidates():
    """thorough = harnesses that a calibration run on the unchanged tree has already decided (they have an entry in
    timings.json); instances never run so far are 'cand'idates: ./check <ID> --tier cand decides them and
    tools/collect_timings.py then promotes the decided ones into the thorough tier"""
    import os, json
    path = os.path.join(os.path.dirname(os.path.abspath(__file__)), "timings.json")
    t = json.load(open(path)) if os.path.exists(path) else {}
    for e in T:
        if e["name"] not in t:
            for prop in list(e["props"]):
                if e["props"][prop] == "thorough":
                    e["props"][prop] = "cand"


def template_family():
    # literal text with ONE symbolic byte: decided where the fully symbolic parser harnesses are not
    T = [("0x1ff", 2), ("0x1ff", 1), ("0x1ff", 0), ("0x1ff", 4), ("+0b101", 3), ("+0b101", 0), ("-0o17", 0), ("-0o17", 3), ("12345", 0), ("12345", 2), ("0b", 1), ("+7", 0), ("0xff", 3), ("-0b1101", 6), ("+99", 2), ("0o777", 4)]
    for t, hole in T:
        for signed in (False, True):
            nm = "".join(c if c.isalnum() else {"+": "p", "-": "m"}[c] for c in t)
            H("c07_parse_tmpl_%s_h%d_%s" % (nm, hole, "i" if signed else "u"),
              "h_text::parse_template::<%d>(*b\"%s\",%d,%s)" % (len(t), t, hole, "true" if signed else "false"),
              Q("C07", "C16") if hole == len(t) - 1 and (t[:2] in ("0x", "0o") or (t == "-0b1101" and signed)) else TH("C07"), unwind=len(t) + 6,
              bound="%s::from_str_with_radix_prefix on the literal text \"%s\" with byte %d replaced by every ASCII byte except '_'" % ("IBig" if signed else "UBig", t, hole))


def fbig_round_family():
    OPS = ["trunc", "floor", "ceil", "round", "fract", "split"]
    for b, ks in ((2, (1, 3, 8)), (10, (1, 3))):
        for k in ks:
            for op, on in enumerate(OPS):
                H("c10_fbig_%s_b%d_k%d" % (on, b, k), "h_round::fbig_round_ops::<%d>(%d,%d,20)" % (b, k, op), TH("C10", "C16"), "i64", unwind=16,
                  bound="FBig<_, %d>::%s on sig * %d^-%d for every normalised |sig| < 2^20 (inline-only regime), against integer arithmetic" % (b, on, b, k))


def literal_family():
    # "literal point" harnesses: no symbolic input at all. They exist for operations whose symbolic harnesses are
    # probes (undecided); each decides the property at a handful of named inputs only - stated as such in the bound.
    for w in range(16):
        H("c07_bytes_literal_%d" % w, "h_text::bytes_literals(%d)" % w, Q("C07"), unwind=64, bound="LITERAL POINT: two's complement byte round trip of one literal integer at a word/byte boundary (case %d of 16: +-2^64, -2^72, +-2^128, -(2^128+1), +-2^135, -2^136, +-(2^136-1), -(2^136+1), +-2^143, +-2^192)" % w)
    for w in range(20):
        H("c07_parse_literal_%d" % w, "h_text::parse_literals(%d)" % w, Q("C07"), unwind=12, bound="LITERAL POINT: from_str_with_radix_prefix on one literal text (case %d of 20: signs after the prefix, doubled signs, empty bodies, digits outside the radix, upper-case prefix, leading space)" % w)
    for w in range(20):
        H("c13_inv_large_literal_%d" % w, "h_mod::ring_inv_large_literals(%d)" % w, {"C13": "probe"} if w in (3, 8, 9, 12, 13, 15, 18, 19) else Q("C13"), unwind=200, stubs=REALLOC,
          bound="LITERAL POINT: inv_large (hook verif_inv_large) in a 3-word ring m = (2^64+1)*c, case %d of 20: residues of 1-3 words with and without a common factor with m, expected value a constant computed outside; realloc stubbed as allocate + copy + free" % w)
    import struct
    F32 = (0.25, 0.75, 1.5, -1.5, 2.5, 3.0, 1e10, -1e10, 16777216.0, 1.0995116e12, 1.8446744e19, 9.223372e18, -9.223372e18, 1e-20, -1e-20, 0.0, -0.0, float("inf"), float("-inf"), float("nan"))
    F64 = (0.1, 1.5, -2.5, 1e15, 4503599627370496.5, 18446744073709551616.0, 9223372036854775808.0, -9223372036854775808.0, 1e19, 1.8446744073709552e19 * 4, 1e-30, -1e-30, 0.0, float("inf"), float("-inf"), float("nan"))
    for is64, FS in ((False, F32), (True, F64)):
        for fv in FS:
            fb = struct.unpack("<Q", struct.pack("<d", fv))[0] if is64 else struct.unpack("<I", struct.pack("<f", fv))[0]
            for neg in (False, True):
                H("c14_ord_%s_%x_%s" % ("f64" if is64 else "f32", fb, "n" if neg else "p"), "h_numord::ord_float_semi(%s,%s,%d)" % ("true" if neg else "false", "true" if is64 else "false", fb), Q("C14", "C16"), unwind=8,
                  bound="NumOrd both directions between EVERY %s one-word integer (IBig%s) and the literal %s %r" % ("non-positive" if neg else "non-negative", "" if neg else ", UBig", "f64" if is64 else "f32", fv))
    H("c14_ord_float_literals", "h_numord::ord_float_literals()", Q("C14"), "i64", unwind=16, bound="LITERAL POINTS: NumOrd of 7 small integers against 9 literal f32/f64 values (fractions, halves, integers, -0.0, NaN)")
    # (h_conv::from_f32 / from_f64_exp with a literal exponent field and a symbolic mantissa: 59 of 60 ran out of
    #  memory - decode() masks the field out of the symbolic bits and the shift amount stays symbolic; unregistered)
    H("c06_from_float_literals", "h_conv::from_float_literals()", Q("C06"), "i64", unwind=16, bound="LITERAL POINTS: TryFrom<f32/f64> for IBig/UBig on 6 integral and 7 non-integral / non-finite literals")
    # h_float::ctx_add_literals (C03, not claimed) stays unregistered: see DESIGN 0.3


def thin():
    """secondary properties (C15 forms, C17 invariants, C16 panics) ride on the harnesses of the arithmetic
    families; in the quick tier they keep a deterministic quarter of those (all of them in thorough)"""
    import zlib
    for e in T:
        for prop, own in (("C15", "c15_"), ("C17", "c17_"), ("C19", "c19_")):
            keepers = ("c09_ones", "c05_", "c15_clone", "c17_", "c07_from")
            if prop == "C17" and e["name"].startswith(keepers):
                continue
            if e["props"].get(prop) == "quick" and not e["name"].startswith(own):
                keep = 4 if prop != "C19" else 2
                if zlib.crc32((prop + e["name"]).encode()) % keep != 0:
                    e["props"][prop] = "thorough"



def build():
    global T, _names
    T = []
    _names = set()
    add_family()
    enc_family()
    bits_family()
    cmp_family()
    mul_family()
    div_family()
    conv_family()
    text_family()
    nt_family()
    mod_family()
    round_family()
    numord_family()
    buf_family()
    literal_family()
    template_family()
    # fbig_round_family() is NOT registered: FBig::trunc/floor/ceil/round/fract with a literal exponent and |sig| < 2^20
    # ran out of memory or time in every instance (13 of 13 started), DESIGN 0.2 (k)
    # float_family() is NOT registered: every instance ran out of time/memory (DESIGN 0.2 (k)); the bodies in
    # h_float.rs are kept because their native random run (--selftest) exposed a genuine rounding defect
    thin()
    demote_slow()
    demote_probes()
    mark_candidates()
    return T
