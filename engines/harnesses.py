"""Harness table: which generic harness body is instantiated with which concrete shape / sign /
form / configuration, and which property and tier each instance serves.  /verif/check turns every
entry into one #[kani::proof] (gen.rs) over the real crates."""

SIGN = {"p": "POS", "n": "NEG"}
T = []
_names = set()


def H(name, call, props, cfg="w64", kind="pass", unwind=8, bound="", finding=None, stubs=()):
    """props: dict property -> 'quick'|'thorough'"""
    full = name if cfg == "w64" else "%s_%s" % (name, cfg)
    key = (full, cfg)
    assert key not in _names, key
    _names.add(key)
    T.append({"name": full, "call": call, "props": dict(props), "cfg": cfg, "kind": kind,
              "unwind": unwind, "bound": bound, "finding": finding, "stubs": list(stubs)})


def Q(*ps):
    return {p: "quick" for p in ps}


def TH(*ps):
    return {p: "thorough" for p in ps}


def mix(quick=(), thorough=()):
    d = {p: "thorough" for p in thorough}
    d.update({p: "quick" for p in quick})
    return d


def add_family():
    # kernels: fully symbolic words, symbolic rhs length
    for cfg in ("w64", "w32"):
        pr = mix(quick=("C01", "C19") if cfg == "w32" else ("C01",), thorough=("C16",))
        b = "kernel add.rs on [Word;4], all word contents, rhs length 0..=4"
        H("k_add_in_place_4", "h_add::k_add_in_place::<4>(false)", pr, cfg, unwind=6, bound=b)
        H("k_sub_in_place_4", "h_add::k_add_in_place::<4>(true)", pr, cfg, unwind=6, bound=b)
        for w, nm in enumerate(("add_same_len", "sub_same_len", "sub_same_len_swap")):
            H("k_%s_4" % nm, "h_add::k_same_len::<4>(%d)" % w, pr, cfg, unwind=6, bound=b)
        for w, nm in enumerate(("add_one", "sub_one", "add_word", "sub_word", "add_dword", "sub_dword")):
            H("k_%s_4" % nm, "h_add::k_small::<4>(%d)" % w, pr, cfg, unwind=6, bound=b)
        H("k_sub_with_sign_3", "h_add::k_sub_with_sign::<3>()", pr, cfg, unwind=5, bound=b.replace("4", "3"))
        H("k_sub_with_sign_4", "h_add::k_sub_with_sign::<4>()", TH("C01", "C16"), cfg, unwind=6, bound=b)
        H("k_add_signed_pos_4", "h_add::k_add_signed::<4>(POS)", pr, cfg, unwind=6, bound=b)
        H("k_add_signed_neg_4", "h_add::k_add_signed::<4>(NEG)", pr, cfg, unwind=6, bound=b)

    # IBig +/- IBig: one (shape, sign pair, op, form) per harness
    forms = ["vv", "rr", "vr", "rv", "as"]
    k = 0
    for na in range(0, 5):
        for nb in range(0, 5):
            m = max(na, nb) + 1
            for sa in "pn":
                for sb in "pn":
                    if (na == 0 and sa == "n") or (nb == 0 and sb == "n"):
                        continue
                    for op in ("add", "sub"):
                        for f, fn in enumerate(forms):
                            k += 1
                            small = na <= 3 and nb <= 3
                            # quick: every shape<=3 x sign pair x op with one rotating form
                            quick = small and (f == (na * 7 + nb * 3 + (sa == "n") * 2 + (sb == "n") + (op == "sub")) % 5)
                            props = {}
                            if quick:
                                props = Q("C01", "C15", "C17")
                            else:
                                props = TH("C01", "C15", "C17")
                            b = "IBig%sIBig, operand lengths exactly (%d,%d) words, all word contents" % ("+" if op == "add" else "-", na, nb)
                            H("c01_%s_i_%d%d_%s%s_%s" % (op, na, nb, sa, sb, fn),
                              "h_add::addsub_ibig::<%d,%d,%d>(%s,%s,%d,%s)" % (na, nb, m, SIGN[sa], SIGN[sb], f, "true" if op == "sub" else "false"),
                              props, "w64", unwind=m + 4, bound=b)
                            if small and f == 1:
                                H("c01_%s_i_%d%d_%s%s_%s" % (op, na, nb, sa, sb, fn),
                                  "h_add::addsub_ibig::<%d,%d,%d>(%s,%s,%d,%s)" % (na, nb, m, SIGN[sa], SIGN[sb], f, "true" if op == "sub" else "false"),
                                  mix(quick=("C19",) if (na + nb) % 2 == 0 else (), thorough=("C19", "C01")), "w32", unwind=m + 4, bound=b)
    # witnesses (vacuity guards): the interesting regions are reachable
    H("c01_add_i_cover_carry", "h_add::addsub_ibig_cover::<2,2,3>(POS,POS,0)", Q("C01", "C17"), kind="witness", unwind=7)
    H("c01_add_i_cover_cancel", "h_add::addsub_ibig_cover::<3,3,4>(POS,NEG,1)", Q("C01", "C17"), kind="witness", unwind=8)
    H("c01_add_i_cover_shrink", "h_add::addsub_ibig_cover::<3,3,4>(NEG,POS,2)", Q("C01", "C17"), kind="witness", unwind=8)

    # UBig + UBig, UBig - UBig (with the documented underflow panic)
    for na in range(0, 5):
        for nb in range(0, 5):
            m = max(na, nb) + 1
            for f, fn in enumerate(forms):
                small = na <= 3 and nb <= 3
                quick = small and f == (na + 2 * nb) % 5
                props = Q("C01", "C15", "C17") if quick else TH("C01", "C15", "C17")
                H("c01_add_u_%d%d_%s" % (na, nb, fn), "h_add::add_ubig::<%d,%d,%d>(%d)" % (na, nb, m, f), props,
                  unwind=m + 4, bound="UBig+UBig lengths exactly (%d,%d)" % (na, nb))
                if na >= nb:
                    H("c01_sub_u_%d%d_%s" % (na, nb, fn), "h_add::sub_ubig::<%d,%d>(%d)" % (na, nb, f), props,
                      unwind=m + 4, bound="UBig-UBig lengths exactly (%d,%d), a>=b" % (na, nb))
                if nb >= na and nb > 0:
                    pp = dict(props)
                    pp["C16"] = "quick" if quick else "thorough"
                    H("c01_sub_u_underflow_%d%d_%s" % (na, nb, fn), "h_add::sub_ubig_underflow::<%d,%d>(%d)" % (na, nb, f), pp,
                      kind="panic", unwind=m + 4, bound="UBig-UBig lengths exactly (%d,%d), a<b must panic" % (na, nb))
    # mixed UBig/IBig forms
    for na in range(0, 4):
        for nb in range(0, 4):
            m = max(na, nb) + 1
            for sb in "pn":
                if nb == 0 and sb == "n":
                    continue
                for w in range(8):
                    quick = w == (na * 3 + nb + (sb == "n")) % 8
                    props = Q("C15", "C01") if quick else TH("C15", "C01")
                    H("c15_addsub_mixed_%d%d_%s_%d" % (na, nb, sb, w), "h_add::addsub_mixed::<%d,%d,%d>(%s,%d)" % (na, nb, m, SIGN[sb], w),
                      props, unwind=m + 4, bound="UBig(len %d) op IBig(len %d) mixed forms" % (na, nb))


def enc_family():
    b32 = "f32::encode: every i32 mantissa, exponent window [%d,%d]"
    for i, (lo, hi) in enumerate([(-400, -181), (-180, -140), (-139, -100), (-99, 80), (81, 140), (141, 400)]):
        H("c06_enc_f32_%d" % i, "h_enc::enc_f32(%d,%d)" % (lo, hi), mix(quick=("C06",), thorough=("C16",)), unwind=2, bound=b32 % (lo, hi))
    b64 = "f64::encode: every i64 mantissa, exponent window [%d,%d]"
    for i, (lo, hi) in enumerate([(-1400, -1139), (-1138, -1100), (-1099, -1060), (-1059, -1000), (-999, 900), (901, 1030), (1031, 1400)]):
        H("c06_enc_f64_%d" % i, "h_enc::enc_f64(%d,%d)" % (lo, hi), mix(quick=("C06",), thorough=("C16",)), unwind=2, bound=b64 % (lo, hi))
    H("c06_dec_f32", "h_enc::dec_f32()", Q("C06"), unwind=2, bound="all 2^32 f32 bit patterns")
    H("c06_dec_f64", "h_enc::dec_f64()", Q("C06"), unwind=2, bound="all 2^64 f64 bit patterns")
    H("c06_ref_vs_cast_f32", "h_enc::ref_vs_cast_f32()", Q("C06"), unwind=2, bound="oracle validation: all i32 vs `as f32`")
    H("c06_ref_vs_cast_f64", "h_enc::ref_vs_cast_f64()", Q("C06"), unwind=2, bound="oracle validation: all i64 vs `as f64`")


def build():
    global T, _names
    T = []
    _names = set()
    add_family()
    enc_family()
    return T
